#!/bin/bash
# Builds the simulator against the CURRENT /repo working tree (scratch copy, instrumented),
# caches the binary by content hash under /verif/.build/<hash>/saosim and prints its path.
set -euo pipefail
export GOFLAGS=-mod=mod GOPROXY=off GOSUMDB=off GOTOOLCHAIN=local
VERIF=/verif
REPO=${VERIF_REPO:-/repo}
mkdir -p $VERIF/.build
H=$( (cd $REPO && find . -path ./.git -prune -o -type f \( -name '*.go' -o -name go.mod -o -name go.sum \) -print0 | sort -z | xargs -0 sha256sum; cd $VERIF && find sim verifrt instrument -type f \( -name '*.go' -o -name go.mod \) -print0 2>/dev/null | sort -z | xargs -0 sha256sum; echo "noinstr=${VERIF_NOINSTRUMENT:-0}") | sha256sum | cut -c1-20)
OUT=$VERIF/.build/$H
if [ -x $OUT/saosim ]; then echo $OUT/saosim; exit 0; fi
SCR=$(mktemp -d ${TMPDIR:-/var/tmp}/saosim-build-XXXXXX)
trap 'rm -rf $SCR' EXIT
mkdir -p $SCR/repo
rsync -a --exclude .git --exclude ts-client-builder $REPO/ $SCR/repo/
mkdir -p $SCR/repo/verifrt $SCR/repo/verifsim
cp $VERIF/verifrt/*.go $SCR/repo/verifrt/
cp $VERIF/sim/*.go $SCR/repo/verifsim/
cd $SCR/repo
if ! grep -q 'anishathalye/porcupine' go.mod; then
  sed -i 's|^require (|require (\n\tgithub.com/anishathalye/porcupine v1.3.0|' go.mod
fi
if [ -x $VERIF/.build/instrument ] && [ "${VERIF_NOINSTRUMENT:-0}" != 1 ]; then
  $VERIF/.build/instrument -root $SCR/repo >$SCR/instrument.log 2>&1 || { cat $SCR/instrument.log >&2; echo "instrumenter failed" >&2; exit 2; }
fi
mkdir -p $OUT
if ! go build -tags verif -trimpath -o $OUT/saosim ./verifsim >$SCR/build.log 2>&1; then
  cat $SCR/build.log >&2; rm -rf $OUT; echo "build failed" >&2; exit 2
fi
[ -f $SCR/instrument.log ] && cp $SCR/instrument.log $OUT/instrument.log || true
# keep the eight most recent binaries; never evict one younger than 90 minutes (it may be in use, or
# still being built, by a check running in parallel)
for d in $(ls -1dt $VERIF/.build/*/ 2>/dev/null | tail -n +9); do
  [ -n "$(find "$d" -maxdepth 0 -mmin +90 2>/dev/null)" ] && rm -rf "$d"
done
echo $OUT/saosim
