#!/usr/bin/env python3
# Regenerates MANIFEST.json from the table below (kept in one place so it stays valid).
import json
props = [json.loads(l) for l in open('/verif/properties.jsonl')]
claimed = json.load(open('/verif/claims.json'))
checks = []
na = []
for p in props:
    pid = p['id']
    if pid in claimed['checks']:
        c = claimed['checks'][pid]
        checks.append({
            "property_id": pid,
            "quick_cmd": f"./check {pid} quick",
            "thorough_cmd": f"./check {pid} thorough",
            "evidence_file": f"/verif/evidence/{pid}.json",
            "replay_cmd_template": "./check replay {path}",
            "engine": "saosim",
            "level_claimed": {"category": "exploration", "text": c['text'], "design_ref": c.get('design_ref', 'DESIGN.md §6')},
            "level_note": c['note'],
            "technique": c.get('technique', 'deterministic simulation with fault injection: seeded search over schedules/fault sequences on the real app through ABCI'),
        })
    else:
        na.append({"property_id": pid, "reason": claimed['not_applicable'].get(pid, 'check not built yet in this round (simulation target per DESIGN.md §6)')})
m = {
    "version": 1,
    "setup_cmd": "./setup.sh",
    "hooks": {
        "guard": "verif",
        "enable": "no hooks are committed to /repo: every check copies the current /repo working tree to a scratch directory, adds /verif/verifrt and the simulator sources to the copy, rewrites the copy with /verif/instrument (time.Now -> simulated clock, map ranges -> seeded key order, loop fuel, package-global registry) and builds with -tags verif",
        "baseline_off_cmd": "python3 /verif/baseline_check.py",
        "source_commits": [],
        "add_only": True,
    },
    "engines": [{"name": "saosim", "path": "/verif/sim", "serves_properties": sorted(claimed['checks'].keys()), "kind_free_text": "single-process deterministic simulator: sequencer stub + N replicas of the real app over MemDB, seeded actors and fault injection, per-step snapshot oracles, trace-level delta-debugging shrinker, replay files"}],
    "checks": checks,
    "notes": claimed.get('notes', ''),
    "not_applicable": na,
}
json.dump(m, open('/verif/MANIFEST.json', 'w'), indent=1)
print(len(checks), 'checks,', len(na), 'not claimed')
