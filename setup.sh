#!/bin/bash
# MANIFEST.setup_cmd: builds the instrumenter and warms the Go build cache (offline).
set -e
cd /verif
export GOFLAGS=-mod=mod GOPROXY=off GOSUMDB=off GOTOOLCHAIN=local
mkdir -p .build evidence replays
if [ -f instrument/main.go ]; then
  (cd instrument && go build -o /verif/.build/instrument . ) || { echo "instrumenter build failed"; exit 2; }
fi
./build.sh >/dev/null
echo setup ok
