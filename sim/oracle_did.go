package main

// oracle_did.go: C17 DID registry integrity, after every transaction.

import (
	"fmt"
	"strings"
)

type didOracle struct {
	taint map[string]bool
}

func newDidOracle() *didOracle    { return &didOracle{taint: map[string]bool{}} }
func (o *didOracle) Name() string { return "did" }
func (o *didOracle) End(e *Env)   {}
func (o *didOracle) once(e *Env, sub, step, detail, obj, msg string) {
	key := sub + "|" + detail + "|" + obj
	if o.taint[key] {
		return
	}
	o.taint[key] = true
	e.Violate("C17", sub, step, detail, msg)
}

const proofWindowS = 15 * 60 // the freshness window named in the anchored code (assumption)

func (o *didOracle) Step(e *Env, si *StepInfo) {
	prev, cur := si.Prev, si.Cur
	if prev.Did == cur.Did {
		return
	}
	lab := stepLabel(si)
	d := cur.Did
	// tables: every bound account is in exactly one account list and the tables agree
	seenAcc := map[string]string{}
	ethAcc := map[string]string{}
	for _, did := range sortedKeys(d.AccountLists) {
		for _, ad := range d.AccountLists[did] {
			if _, ok := d.AccountAuths[ad]; !ok {
				o.once(e, "C17.tables", lab, "listed-account-without-auth", ad, fmt.Sprintf("%s lists account did %s which has no auth record", did, ad))
			}
			accId, ok := d.AccountIds[ad]
			if !ok {
				o.once(e, "C17.tables", lab, "listed-account-without-id", ad, fmt.Sprintf("%s lists account did %s which has no account id record", did, ad))
				continue
			}
			if other, dup := seenAcc[accId]; dup {
				o.once(e, "C17.tables", lab, "account-in-two-lists", accId, fmt.Sprintf("account %s appears in the account lists of %s and %s", accId, other, did))
			}
			seenAcc[accId] = did
			// an Ethereum account is the same account however its hex address is capitalised
			if strings.HasPrefix(accId, "eip155:") {
				norm := strings.ToLower(accId)
				if other, dup := ethAcc[norm]; dup && other != did {
					o.once(e, "C17.tables", lab, "account-bound-to-two-dids", norm, fmt.Sprintf("Ethereum account %s is bound to both %s and %s (different capitalisation of the same address)", norm, other, did))
				}
				ethAcc[norm] = did
			}
			if d.Dids[accId] != did {
				o.once(e, "C17.tables", lab, "listed-account-not-bound", accId, fmt.Sprintf("account %s is in the list of %s but its binding says %q", accId, did, d.Dids[accId]))
			}
		}
	}
	for _, accId := range sortedKeys(d.Dids) {
		if seenAcc[accId] != d.Dids[accId] {
			o.once(e, "C17.tables", lab, "bound-account-not-listed", accId, fmt.Sprintf("account %s is bound to %s but is not in that DID's account list", accId, d.Dids[accId]))
		}
	}
	// proof: a new binding needs a valid fresh proof by the account's key and, for an existing DID, a bound submitter
	for _, accId := range sortedKeys(d.Dids) {
		if _, had := prev.Did.Dids[accId]; had {
			continue
		}
		e.probe("did_binding_created")
		did := d.Dids[accId]
		pt := (*ProofTruth)(nil)
		if si.Built != nil {
			pt = si.Built.Proof
		}
		switch {
		case si.Kind != "tx" || si.Op == nil || si.Op.K != "did_bind" || pt == nil:
			o.once(e, "C17.proof", lab, "binding-created-without-binding-request", accId, fmt.Sprintf("account %s became bound to %s in step %s", accId, did, lab))
		case pt.AccountId != accId || pt.Did != did:
			o.once(e, "C17.proof", lab, "binding-differs-from-proof", accId, fmt.Sprintf("binding %s -> %s created but the proof was for %s -> %s", accId, did, pt.AccountId, pt.Did))
		case !pt.SignedByAccountKey:
			o.once(e, "C17.proof", lab, "binding-with-proof-not-signed-by-account", accId, fmt.Sprintf("account %s bound to %s with a proof that its own key did not sign (variant %q)", accId, did, si.Op.Mis))
		case pt.Timestamp+proofWindowS+60 < pt.BlockTime:
			o.once(e, "C17.proof", lab, "binding-with-stale-proof", accId, fmt.Sprintf("account %s bound with a proof dated %d s before the block time (window %d s)", accId, pt.BlockTime-pt.Timestamp, proofWindowS))
		case !pt.NewSid:
			signer := cosmosAccountId(si.Built.Signer)
			if prev.Did.Dids[signer] != did {
				o.once(e, "C17.proof", lab, "binding-to-existing-did-by-unbound-submitter", accId, fmt.Sprintf("account %s bound to existing %s by %s who is not bound to it", accId, did, si.Built.Signer.Name))
			}
		}
	}
	// payment addresses
	for _, did := range sortedKeys(d.PayAddrs) {
		addr := d.PayAddrs[did]
		old, had := prev.Did.PayAddrs[did]
		if strings.HasPrefix(did, "did:sid:") {
			if d.Dids["cosmos:"+ChainID+":"+addr] != did {
				o.once(e, "C17.sidpay", lab, "sid-payment-address-not-bound", did, fmt.Sprintf("%s pays from %s which is not an account currently bound to it on this chain", did, addr))
			}
		} else if strings.HasPrefix(did, "did:key:") {
			if had && old != addr {
				o.once(e, "C17.keypay", lab, "key-did-payment-address-changed", did, fmt.Sprintf("%s payment address changed from %s to %s", did, old, addr))
			}
			if !had && (si.Kind != "tx" || si.Built == nil || si.Built.Signer.AddrS != addr) {
				o.once(e, "C17.keypay", lab, "key-did-payment-address-set-by-other", did, fmt.Sprintf("%s payment address set to %s by a transaction that address did not sign", did, addr))
			}
		}
	}
	for _, did := range sortedKeys(prev.Did.PayAddrs) {
		if _, still := d.PayAddrs[did]; !still {
			o.once(e, "C17.sidpay", lab, "payment-address-removed", did, fmt.Sprintf("%s lost its payment address", did))
		}
	}
	// kid: an address is linked to at most one key DID
	byAddr := map[string]string{}
	for _, did := range sortedKeys(d.PayAddrs) {
		if !strings.HasPrefix(did, "did:key:") {
			continue
		}
		a := d.PayAddrs[did]
		if other, dup := byAddr[a]; dup {
			o.once(e, "C17.kid", lab, "address-linked-to-two-key-dids", a, fmt.Sprintf("address %s is the payment address of %s and %s", a, other, did))
		}
		byAddr[a] = did
		if k, ok := d.Kids[a]; ok && k != did {
			o.once(e, "C17.kid", lab, "kid-table-disagrees", a, fmt.Sprintf("address %s: kid table says %s, payment table says %s", a, k, did))
		}
	}
}
