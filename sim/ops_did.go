package main

// ops_did.go: DID registry operations (sid binding, key rotation/unbinding, payment address).

import (
	"encoding/base64"
	"encoding/hex"
	"fmt"
	"strings"

	didkeeper "github.com/SaoNetwork/sao/x/did/keeper"
	didtypes "github.com/SaoNetwork/sao/x/did/types"
	"github.com/cosmos/cosmos-sdk/crypto/keys/secp256k1"
	sdk "github.com/cosmos/cosmos-sdk/types"
	ethcrypto "github.com/ethereum/go-ethereum/crypto"
	"github.com/multiformats/go-multibase"
)

// ProofTruth is the harness' ground truth about a binding proof.
type ProofTruth struct {
	AccountId          string
	Did                string
	SignedByAccountKey bool
	Timestamp          int64
	BlockTime          int64
	NewSid             bool
}

func sidKey(owner *Actor, version int) *secp256k1.PrivKey {
	return secp256k1.GenPrivKeyFromSecret([]byte(fmt.Sprintf("verif-sid-%s-v%d", owner.Name, version)))
}

func sidPubKeys(owner *Actor, version int) []*didtypes.PubKey {
	pk := sidKey(owner, version).PubKey().Bytes()
	v, _ := multibase.Encode(multibase.Base58BTC, append([]byte{0xe7, 0x01}, pk...))
	return []*didtypes.PubKey{{Name: fmt.Sprintf("key-%d", version), Value: v}}
}

func cosmosAccountId(a *Actor) string { return "cosmos:" + ChainID + ":" + a.AddrS }

func ethKeyOf(a *Actor) ([]byte, string) {
	k, err := ethcrypto.ToECDSA(a.Priv.Key)
	if err != nil {
		panic(err)
	}
	return a.Priv.Key, strings.ToLower(ethcrypto.PubkeyToAddress(k.PublicKey).Hex())
}

// sidOf returns the sid DID the actor's cosmos account is bound to ("" if none).
func (e *Env) sidOf(a *Actor) string { return e.Cur.Did.Dids[cosmosAccountId(a)] }

// listedIn: the account of a is in the account list of the sid DID did.
func (e *Env) listedIn(a *Actor, did string) bool {
	for _, ad := range e.Cur.Did.AccountLists[did] {
		if e.Cur.Did.AccountIds[ad] == cosmosAccountId(a) {
			return true
		}
	}
	return false
}

func (e *Env) buildDid(op *Op, a *Actor) (*Built, string) {
	s := e.Cur
	now := e.Blk.Time.Unix()
	switch op.K {
	case "did_bind":
		acc := e.ref(op.Acc, a)
		owner := e.ref(op.To, a)
		ts := uint64(now + op.N)
		did := e.sidOf(owner)
		newSid := did == ""
		var keys []*didtypes.PubKey
		root := ""
		if newSid {
			keys = sidPubKeys(owner, 0)
			var err error
			root, err = didkeeper.CalculateDocId(keys, ts)
			if err != nil {
				return nil, "docid"
			}
			did = "did:sid:" + root
		} else {
			root = strings.TrimPrefix(did, "did:sid:")
			keys = sidPubKeys(owner, 0)
		}
		accId := cosmosAccountId(acc)
		// the text wallets show and sign (format of the repository's own client tests)
		msgDid, msgTs := did, ts
		switch op.Mis {
		case "msgdid":
			// a signature the account gave for a different DID, re-submitted for this one
			msgDid = "did:sid:" + strings.Repeat("ab", 32)
		case "msgts":
			// a signature given long ago, re-submitted with a fresh timestamp field
			msgTs = ts - 100_000
		}
		msgText := fmt.Sprintf("Link this account to your did: %s\nTimestamp: %d", msgDid, msgTs)
		signer := acc
		if op.Mis == "otherkey" {
			signer = a
			if signer == acc {
				signer = e.W.Actors[(acc.Idx+1)%len(e.W.Actors)]
			}
		}
		var sig string
		if op.Mis == "eip155" || op.Mis == "eip155mixed" {
			_, addr := ethKeyOf(acc)
			if op.Mis == "eip155mixed" {
				// the same account written in EIP-55 checksum (mixed-case) spelling
				k, _ := ethcrypto.ToECDSA(acc.Priv.Key)
				addr = ethcrypto.PubkeyToAddress(k.PublicKey).Hex()
			}
			accId = "eip155:1:" + addr
			h := ethcrypto.Keccak256([]byte("\u0019Ethereum Signed Message:\n" + fmt.Sprint(len(msgText)) + msgText))
			k, _ := ethcrypto.ToECDSA(signer.Priv.Key)
			sb, err := ethcrypto.Sign(h, k)
			if err != nil {
				return nil, "ethsign"
			}
			sb[64] += 27
			sig = "0x" + hex.EncodeToString(sb)
		} else {
			if op.Mis == "wrongchain" {
				accId = "cosmos:other-chain:" + acc.AddrS
			}
			sb, err := signer.Priv.Sign(didkeeper.GetSignData(acc.AddrS, msgText))
			if err != nil {
				return nil, "sign"
			}
			if op.Mis == "badsig" {
				sb[3] ^= 0x40
			}
			sig = "tendermint/PubKeySecp256k1." + base64.StdEncoding.EncodeToString(signer.Priv.PubKey().Bytes()) + "." + base64.StdEncoding.EncodeToString(sb)
			if op.Mis == "otherkey" {
				// present the account's own public key with a signature made by another key
				sig = "tendermint/PubKeySecp256k1." + base64.StdEncoding.EncodeToString(acc.Priv.PubKey().Bytes()) + "." + base64.StdEncoding.EncodeToString(sb)
			}
		}
		accountDid := acc.Did
		if op.Mis == "eip155" {
			accountDid = acc.Did + "eth"
		}
		if op.Mis == "eip155mixed" {
			accountDid = acc.Did + "ethmix"
		}
		if op.Mis == "rebind" {
			// an account that is bound already is bound once more under a further account did
			accountDid = acc.Did + "again"
		}
		m := &didtypes.MsgBinding{
			Creator: a.AddrS, AccountId: accId, RootDocId: root, Keys: keys,
			AccountAuth: &didtypes.AccountAuth{AccountDid: accountDid, AccountEncryptedSeed: "seed-" + acc.Name, SidEncryptedAccount: "enc-" + acc.Name},
			Proof:       &didtypes.BindingProof{Version: 1, Message: msgText, Signature: sig, Account: accId, Did: did, Timestamp: ts},
		}
		pt := &ProofTruth{AccountId: accId, Did: msgDid, SignedByAccountKey: signer == acc && op.Mis != "badsig", Timestamp: int64(msgTs), BlockTime: now, NewSid: newSid}
		return &Built{Msgs: []sdk.Msg{m}, Signer: a, Proof: pt, Info: fmt.Sprintf("did=%s acc=%s ts=%+d", short(root), acc.Name, op.N)}, ""
	case "did_update":
		owner := e.ref(op.To, a)
		did := e.sidOf(owner)
		if did == "" {
			return nil, "no-sid"
		}
		root := strings.TrimPrefix(did, "did:sid:")
		vers := len(s.Did.SidVersions[root])
		ts := uint64(now + op.N)
		keys := sidPubKeys(owner, vers)
		newDoc, err := didkeeper.CalculateDocId(keys, ts)
		if err != nil {
			return nil, "docid"
		}
		m := &didtypes.MsgUpdate{Creator: a.AddrS, Did: did, NewDocId: newDoc, Keys: keys, Timestamp: ts, PastSeed: fmt.Sprintf("seed-%s-%d-%d", owner.Name, vers, e.Blk.Height)}
		remove := map[string]bool{}
		for _, i := range op.L {
			if x := e.actor(i); x != nil {
				remove[x.Did] = true
				remove[x.Did+"eth"] = true
			}
		}
		for _, ad := range s.Did.AccountLists[did] {
			if remove[ad] {
				m.RemoveAccountDid = append(m.RemoveAccountDid, ad)
			} else {
				au := s.Did.AccountAuths[ad]
				au.SidEncryptedAccount = fmt.Sprintf("enc-v%d", vers)
				c := au
				m.UpdateAccountAuth = append(m.UpdateAccountAuth, &c)
			}
		}
		if op.Mis == "foreign-remove" || op.Mis == "foreign-update" {
			var foreign []string
			for _, d2 := range sortedKeys(s.Did.AccountLists) {
				if d2 != did {
					foreign = append(foreign, s.Did.AccountLists[d2]...)
				}
			}
			if len(foreign) > 0 {
				ad := foreign[op.W%len(foreign)]
				if op.Mis == "foreign-remove" {
					m.RemoveAccountDid = append(m.RemoveAccountDid, ad)
				} else {
					au := s.Did.AccountAuths[ad]
					c := au
					m.UpdateAccountAuth = append(m.UpdateAccountAuth, &c)
				}
			}
		}
		return &Built{Msgs: []sdk.Msg{m}, Signer: a, Info: fmt.Sprintf("did=%s remove=%d keep=%d", short(root), len(m.RemoveAccountDid), len(m.UpdateAccountAuth))}, ""
	case "sid_payaddr":
		owner := e.ref(op.To, a)
		did := e.sidOf(owner)
		if did == "" {
			return nil, "no-sid"
		}
		acc := e.ref(op.Acc, a)
		return &Built{Msgs: []sdk.Msg{didtypes.NewMsgUpdatePaymentAddress(a.AddrS, cosmosAccountId(acc), did)}, Signer: a}, ""
	}
	return nil, "unknown-op"
}
