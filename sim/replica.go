package main

// replica.go: phase 2 of a run — further replicas replay the committed block stream of
// the observer under their own wall clock, map-iteration order, non-consensus call
// schedule and crash/restart schedule (C01, C03).

import (
	"encoding/hex"
	"fmt"
	"strings"
	"time"

	"github.com/SaoNetwork/sao/verifrt"
	abci "github.com/tendermint/tendermint/abci/types"
)

type ReplicaSched struct {
	Name       string
	ClockLag   time.Duration // base lag of the wall clock behind/after block time
	ClockJumps bool          // occasionally jump by hours/days (catch-up of a syncing node)
	ShuffleMap bool
	Calls      float64 // probability of interleaving non-consensus calls at a call point
	Restarts   float64 // probability of a restart at a crash point
	MidBlock   bool    // allow crashes inside a block (re-executes the block)
}

type replicaDiff struct {
	Height int64
	Where  string // begin | tx | end | commit
	TxIdx  int
	Detail string
}

// observerClock installs the observer's wall clock: block time plus a small latency.
func (e *Env) observerClock() {
	verifrt.PermFn = nil
	verifrt.NowFn = func() time.Time {
		if e.Blk != nil {
			return e.Blk.Time.Add(1500 * time.Millisecond)
		}
		return e.Seq.Time.Add(1500 * time.Millisecond)
	}
}

func msgTypeOfTx(tx []byte) string {
	t, err := encCfg.TxConfig.TxDecoder()(tx)
	if err != nil {
		return "undecodable"
	}
	ms := t.GetMsgs()
	if len(ms) == 0 {
		return "empty"
	}
	s := fmt.Sprintf("%T", ms[0])
	if i := strings.LastIndex(s, "."); i >= 0 {
		s = s[i+1:]
	}
	return s
}

// ReplayOnReplica feeds the recorded block stream into a fresh replica and returns the
// first divergence from the observer's responses, if any.
func (e *Env) ReplayOnReplica(sc ReplicaSched) (*replicaDiff, *PanicInfo) {
	rng := NewRng(e.W.Cfg.Seed).Sub("replica-" + sc.Name)
	verifrt.ResetGlobals()
	r := NewReplica(sc.Name)
	r.FuelBudget = e.R.FuelBudget
	defer r.Close()
	defer e.observerClock()
	var cur *Block
	lag := sc.ClockLag
	verifrt.NowFn = func() time.Time {
		if cur != nil {
			return cur.Time.Add(lag)
		}
		return genesisTime.Add(lag)
	}
	if sc.ShuffleMap {
		prng := rng.Sub("maporder")
		verifrt.PermFn = func(n int) []int { return prng.Perm(n) }
	} else {
		verifrt.PermFn = nil
	}
	if _, pi := r.InitChain(e.Genesis, 1, genesisTime); pi != nil {
		return nil, pi
	}
	// pool of transactions for non-consensus calls: everything that ever entered a block
	var pool [][]byte
	for _, b := range e.Blocks {
		pool = append(pool, b.Txs...)
	}
	nonConsensus := func(b *Block, upcoming [][]byte) {
		if sc.Calls <= 0 || !rng.Chance(sc.Calls) {
			return
		}
		n := rng.Range(1, 3)
		for i := 0; i < n; i++ {
			var tx []byte
			if len(upcoming) > 0 && rng.Chance(0.6) {
				tx = upcoming[rng.Intn(len(upcoming))]
			} else if len(pool) > 0 {
				tx = pool[rng.Intn(len(pool))]
			}
			if tx == nil {
				continue
			}
			var pi *PanicInfo
			switch rng.Intn(4) {
			case 0:
				_, pi = r.CheckTx(tx, false)
				e.fault("F8.checktx")
			case 1:
				_, pi = r.CheckTx(tx, true)
				e.fault("F8.recheck")
			case 2, 3:
				_, _, pi = r.Simulate(tx)
				e.fault("F8.simulate")
			}
			if pi != nil && pi.Fuel {
				h := int64(0)
				if b != nil {
					h = b.Height
				}
				e.Violate("C02", "C02.fuel", pi.Call, pi.Site, fmt.Sprintf("non-consensus %s of a %s transaction on replica %s before block %d never terminates: loop budget exhausted at %s (frames: %s)", pi.Call, msgTypeOfTx(tx), sc.Name, h, pi.Site, pi.Stack))
			}
		}
		if rng.Chance(0.3) {
			r.App.Query(abci.RequestQuery{Path: "/store/node/key", Data: []byte("Pool/value/\x00")})
			e.fault("F8.query")
		}
	}
	for bi, b := range e.Blocks {
		want := e.Resps[bi]
		cur = b
		if sc.ClockJumps && rng.Chance(0.03) {
			lag += time.Duration(rng.Range(1, 72)) * time.Hour
			e.fault("F7.clock_jump")
		}
		// crash point: after the previous commit
		if sc.Restarts > 0 && rng.Chance(sc.Restarts) {
			r.Restart()
			e.fault("F5.restart_between_blocks")
		}
		crashAt := -2 // -2: none; -1: after BeginBlock; i: after i-th DeliverTx; len: after EndBlock
		if sc.MidBlock && sc.Restarts > 0 && rng.Chance(sc.Restarts*0.5) {
			crashAt = rng.Range(-1, len(b.Txs))
		}
	again:
		nonConsensus(b, b.Txs)
		bb, pi := r.BeginBlock(b)
		if pi != nil {
			return nil, pi
		}
		if crashAt == -1 {
			crashAt = -2
			r.Restart()
			e.fault("F5.restart_mid_block")
			goto again
		}
		if h := hashEvents(bb.Events); h != want.Begin {
			return &replicaDiff{b.Height, "begin", -1, "begin-block events differ"}, nil
		}
		for ti, tx := range b.Txs {
			nonConsensus(b, b.Txs[ti:])
			res, pi := r.DeliverTx(tx)
			if pi != nil {
				return nil, pi
			}
			if crashAt == ti {
				crashAt = -2
				r.Restart()
				e.fault("F5.restart_mid_block")
				goto again
			}
			if d := txRespDigest(&res); ti < len(want.Txs) && d != want.Txs[ti] {
				return &replicaDiff{b.Height, "tx", ti, fmt.Sprintf("%s: observer %s, replica %s (log: %s)", msgTypeOfTx(tx), want.Txs[ti], d, trunc(res.Log, 120))}, nil
			}
		}
		nonConsensus(b, nil)
		eb, pi := r.EndBlock(b)
		if pi != nil {
			return nil, pi
		}
		if crashAt == len(b.Txs) {
			crashAt = -2
			r.Restart()
			e.fault("F5.restart_before_commit")
			goto again
		}
		if d := endRespDigest(&eb); d != want.End {
			return &replicaDiff{b.Height, "end", -1, "end-block response differs"}, nil
		}
		hashv, pi := r.Commit()
		if pi != nil {
			return nil, pi
		}
		if hex.EncodeToString(hashv) != want.Commit {
			return &replicaDiff{b.Height, "commit", -1, "application state hash differs"}, nil
		}
	}
	return nil, nil
}

// firstTxType names the message type of the first transaction of the block at height h.
func (e *Env) blockTxTypes(h int64) string {
	for _, b := range e.Blocks {
		if b.Height == h {
			var ts []string
			for _, tx := range b.Txs {
				ts = append(ts, msgTypeOfTx(tx))
			}
			return strings.Join(ts, ",")
		}
	}
	return ""
}

// RunReplicas executes phase 2 for the given mode and records violations.
func (e *Env) RunReplicas(mode string) {
	if e.Dead || len(e.Blocks) == 0 {
		return
	}
	report := func(prop, sub string, sc ReplicaSched, d *replicaDiff) {
		det := d.Where
		if d.Where == "tx" {
			det = "tx:" + strings.SplitN(d.Detail, ":", 2)[0]
		}
		e.Violate(prop, sub, sc.Name, det, fmt.Sprintf("replica %s diverges from the observer at height %d (%s #%d): %s; block txs: %s", sc.Name, d.Height, d.Where, d.TxIdx, d.Detail, e.blockTxTypes(d.Height)))
	}
	switch mode {
	case "c01":
		scheds := []ReplicaSched{
			{Name: "R1-late-clock-shuffled-maps", ClockLag: 36 * time.Hour, ClockJumps: true, ShuffleMap: true},
			{Name: "R2-serving-noncon-calls", ClockLag: 2 * time.Second, ShuffleMap: true, Calls: 0.35},
			{Name: "R3-crash-restart", ClockLag: -20 * time.Minute, ShuffleMap: true, Restarts: 0.08, MidBlock: true},
		}
		for _, sc := range scheds {
			if e.OnlyReplica != "" && sc.Name != e.OnlyReplica {
				continue
			}
			d, pi := e.ReplayOnReplica(sc)
			if pi != nil {
				e.Violate("C01", "C01.panic", sc.Name, pi.Call, fmt.Sprintf("replica %s panicked in %s where the observer did not: %s (%s)", sc.Name, pi.Call, pi.Value, pi.Stack))
				continue
			}
			if d != nil {
				sub := map[string]string{"tx": "C01.tx", "begin": "C01.begin", "end": "C01.endblock", "commit": "C01.apphash"}[d.Where]
				report("C01", sub, sc, d)
			}
		}
	case "c03":
		a := ReplicaSched{Name: "A-never-stopped", ClockLag: 2 * time.Second, Calls: 0.3}
		b := ReplicaSched{Name: "B-crash-restart", ClockLag: 2 * time.Second, Calls: 0.3, Restarts: 0.12, MidBlock: true}
		if e.OnlyReplica != "" {
			// shrinking: only the twin that diverged
			for _, sc := range []ReplicaSched{a, b, {Name: "C-restart-only", ClockLag: 2 * time.Second, Restarts: 0.2, MidBlock: true}, {Name: "D-restart-after-every-block", ClockLag: 2 * time.Second, Restarts: 1.0}} {
				if sc.Name != e.OnlyReplica {
					continue
				}
				d, pi := e.ReplayOnReplica(sc)
				sub := "C03.twin"
				if sc.Name == a.Name {
					sub = "C03.simulated"
				}
				if pi != nil {
					e.Violate("C03", sub, sc.Name, pi.Call, fmt.Sprintf("twin %s panicked in %s: %s", sc.Name, pi.Call, pi.Value))
				} else if d != nil {
					report("C03", sub, sc, d)
				}
			}
			return
		}
		da, pa := e.ReplayOnReplica(a)
		if pa != nil {
			e.Violate("C03", "C03.simulated", a.Name, pa.Call, fmt.Sprintf("twin A panicked in %s: %s", pa.Call, pa.Value))
		} else if da != nil {
			report("C03", "C03.simulated", a, da)
		}
		db, pb := e.ReplayOnReplica(b)
		if pb != nil {
			e.Violate("C03", "C03.twin", b.Name, pb.Call, fmt.Sprintf("restarted twin B panicked in %s: %s", pb.Call, pb.Value))
		} else if db != nil && (da == nil || da.Height != db.Height || da.Where != db.Where) {
			report("C03", "C03.twin", b, db)
		}
		// the twins must also agree in restart-only configuration (no extra calls)
		c := ReplicaSched{Name: "C-restart-only", ClockLag: 2 * time.Second, Restarts: 0.2, MidBlock: true}
		dc, pc := e.ReplayOnReplica(c)
		if pc != nil {
			e.Violate("C03", "C03.twin", c.Name, pc.Call, fmt.Sprintf("restarted twin C panicked in %s: %s", pc.Call, pc.Value))
		} else if dc != nil {
			report("C03", "C03.twin", c, dc)
		}
		if e.Thorough && len(e.Blocks) <= 400 {
			// sweep: a restart after every committed height of the history
			dsw := ReplicaSched{Name: "D-restart-after-every-block", ClockLag: 2 * time.Second, Restarts: 1.0}
			dd, pd := e.ReplayOnReplica(dsw)
			if pd != nil {
				e.Violate("C03", "C03.twin", dsw.Name, pd.Call, fmt.Sprintf("restarted twin D panicked in %s: %s", pd.Call, pd.Value))
			} else if dd != nil {
				report("C03", "C03.twin", dsw, dd)
			}
			e.probe("restart_after_every_height_sweep")
		}
	}
}
