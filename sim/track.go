package main

// track.go: harness-side bookkeeping derived from observations (never from a model of
// what the chain should do): which orders/shards existed, who paid, expected ends.

import (
	"fmt"
	"strings"

	ordertypes "github.com/SaoNetwork/sao/x/order/types"
	saotypes "github.com/SaoNetwork/sao/x/sao/types"
	sdk "github.com/cosmos/cosmos-sdk/types"
)

type OrderInfo struct {
	Id            uint64
	DataId        string
	Op            uint32
	Charged       sdk.Int
	Payer         string // address debited
	OwnerPay      string // owner DID's payment address at creation
	CreatedAt     int64
	Authorized    bool // created by an intact request signed by owner / rw grantee
	EverCompleted bool
	Income        sdk.Dec // income attributed to shards while they named this order
	Providers     map[string]bool
	PreMeta       *metaCopy // metadata just before the order's store tx (nil = none)
	HadMeta       bool
	Timeout       uint64
	StoreTxSigner string
	TimedOut      map[string]bool // providers that were assigned a shard of this order and timed out on it
	SignerDid     string // DID whose key signed the (intact) request that created the order
	ExcessAtStore map[string]int64 // per provider: used capacity beyond its stored shards just before the order was created
}

type metaCopy struct {
	Status    int32
	Commit    string
	Commits   []string
	OrderId   uint64
	Orders    []uint64
	Cid       string
	Duration  uint64
	CreatedAt uint64
}

type ShardInfo struct {
	Id          uint64
	Sp          string
	CompletedAt int64
	ExpectedEnd int64
	Size        uint64
	MaxPledge   sdk.Int // largest collateral ever recorded on the shard (what has been taken for it)
}

type Track struct {
	Orders       map[uint64]*OrderInfo
	Shards       map[uint64]*ShardInfo
	MaxOrderId   uint64
	MaxShardId   uint64
	HaveOrder    bool
	HaveShard    bool
	Earned       map[string]sdk.Dec // provider -> income earned by bytes x blocks
	Taken        map[string]sdk.Dec // provider -> income taken out of the worker account at claims
	EverProvider map[string]bool
	MintedNode   sdk.Int
	ClaimedRw    map[string]sdk.Dec // provider -> block reward claimed (whole coins)
	ExpectRw     map[string]sdk.Dec // provider -> independent pro-rata accumulator
	CapPaid      map[string]sdk.Int
	CapBack      map[string]sdk.Int
	RwBlocks     int64
	BytesPerCoin int64
}

func newTrack() *Track {
	return &Track{Orders: map[uint64]*OrderInfo{}, Shards: map[uint64]*ShardInfo{}, Earned: map[string]sdk.Dec{}, Taken: map[string]sdk.Dec{},
		EverProvider: map[string]bool{}, MintedNode: sdk.ZeroInt(), ClaimedRw: map[string]sdk.Dec{}, ExpectRw: map[string]sdk.Dec{},
		CapPaid: map[string]sdk.Int{}, CapBack: map[string]sdk.Int{}}
}

func copyMeta(e *Env, s *Snap, dataId string) (*metaCopy, bool) {
	m, ok := s.Model.Metas[dataId]
	if !ok {
		return nil, false
	}
	return &metaCopy{Status: m.Status, Commit: m.Commit, Commits: append([]string{}, m.Commits...), OrderId: m.OrderId,
		Orders: append([]uint64{}, m.Orders...), Cid: m.Cid, Duration: m.Duration, CreatedAt: m.CreatedAt}, true
}

// trackOracle must run first; it only records.
type trackOracle struct{}

func (trackOracle) Name() string { return "track" }
func (trackOracle) End(e *Env)   {}

func decOr0(m map[string]sdk.Dec, k string) sdk.Dec {
	if v, ok := m[k]; ok {
		return v
	}
	return sdk.ZeroDec()
}

func intOr0(m map[string]sdk.Int, k string) sdk.Int {
	if v, ok := m[k]; ok {
		return v
	}
	return sdk.ZeroInt()
}

func payAddrOf(s *Snap, did string) string { return s.Did.PayAddrs[did] }

func (trackOracle) Step(e *Env, si *StepInfo) {
	t := e.T
	prev, cur := si.Prev, si.Cur
	if prev.Order != cur.Order {
		// new orders
		for _, id := range orderIDs(cur.Order) {
			if _, ok := prev.Order.Orders[id]; ok {
				continue
			}
			o := cur.Order.Orders[id]
			oi := &OrderInfo{Id: id, DataId: o.DataId, Op: o.Operation, Charged: o.Amount.Amount, CreatedAt: si.Height, Income: sdk.ZeroDec(), Providers: map[string]bool{}, Timeout: o.Timeout}
			payDid := o.Owner
			if o.PaymentDid != "" {
				payDid = o.PaymentDid
			}
			oi.Payer = payAddrOf(prev, payDid)
			if o.Operation == 3 {
				oi.Payer = payAddrOf(prev, o.Owner)
			}
			oi.OwnerPay = payAddrOf(prev, o.Owner)
			if si.Built != nil {
				oi.StoreTxSigner = si.Built.Signer.AddrS
				if au := si.Built.Auth; au != nil && au.Intact {
					oi.SignerDid = au.SignerDid
					pm, had := prev.Model.Metas[o.DataId]
					if !had {
						oi.Authorized = true // creation: the signer becomes the owner
					} else if au.SignerDid == pm.Owner {
						oi.Authorized = true
					} else if o.Operation != 3 {
						for _, rw := range pm.ReadwriteDids {
							if rw == au.SignerDid {
								oi.Authorized = true
							}
						}
					}
				}
			}
			oi.PreMeta, oi.HadMeta = copyMeta(e, prev, o.DataId)
			oi.ExcessAtStore = map[string]int64{}
			for _, sid := range o.Shards {
				if sh, ok := cur.Order.Shards[sid]; ok {
					oi.ExcessAtStore[sh.Sp] = usedExcess(prev, sh.Sp)
				}
			}
			t.Orders[id] = oi
		}
		// shard bookkeeping
		for _, sid := range shardIDs(cur.Order) {
			sh := cur.Order.Shards[sid]
			if info := t.Shards[sid]; info != nil && !sh.Pledge.Amount.IsNil() && (info.MaxPledge.IsNil() || sh.Pledge.Amount.GT(info.MaxPledge)) {
				info.MaxPledge = sh.Pledge.Amount
			}
			if oi := t.Orders[sh.OrderId]; oi != nil {
				oi.Providers[sh.Sp] = true
				if sh.Status == ordertypes.ShardTimeout {
					if oi.TimedOut == nil {
						oi.TimedOut = map[string]bool{}
					}
					oi.TimedOut[sh.Sp] = true
				}
			}
			ps, had := prev.Order.Shards[sid]
			if sh.Status == ordertypes.ShardCompleted && (!had || ps.Status != ordertypes.ShardCompleted) {
				info := &ShardInfo{Id: sid, Sp: sh.Sp, CompletedAt: si.Height, Size: sh.Size_, MaxPledge: sh.Pledge.Amount}
				// paid duration from the order record at completion time
				if o, ok := cur.Order.Orders[sh.OrderId]; ok {
					info.ExpectedEnd = si.Height + int64(o.Duration)
				} else {
					info.ExpectedEnd = int64(sh.CreatedAt + sh.Duration)
				}
				if had && ps.Status == ordertypes.ShardMigrating && ps.From != "" {
					// hand-over: inherits the old shard's expected end
					for _, x := range t.Shards {
						if x.Sp != ps.From {
							continue
						}
						_, still := cur.Order.Shards[x.Id]
						_, was := prev.Order.Shards[x.Id]
						if was && !still {
							info.ExpectedEnd = x.ExpectedEnd
						}
					}
				}
				t.Shards[sid] = info
				t.EverProvider[sh.Sp] = true
				if oi := t.Orders[sh.OrderId]; oi != nil {
					oi.EverCompleted = true
				}
			}
		}
	}
	// observed successful renewals extend expected ends
	if si.Kind == "tx" && si.OK && si.Op != nil && si.Op.K == "renew" && si.Res != nil {
		var resp saotypes.MsgRenewResponse
		if decodeTxResp(si.Res.Data, &resp) {
			for _, kv := range resp.Result {
				if !strings.HasPrefix(kv.V, "SUCCESS") {
					continue
				}
				rn := si.Built.Msgs[0].(*saotypes.MsgRenew)
				pm, ok := prev.Model.Metas[kv.K]
				if !ok {
					continue
				}
				if o, ok := prev.Order.Orders[pm.OrderId]; ok {
					for _, sid := range o.Shards {
						if sh, ok := prev.Order.Shards[sid]; ok && sh.Status == ordertypes.ShardCompleted {
							if info := t.Shards[sid]; info != nil {
								info.ExpectedEnd += int64(rn.Proposal.Duration)
							}
						}
					}
				}
			}
		}
	}
	// income accrual: at the end of block h every completed shard present earns one block
	if si.Kind == "end" {
		for _, sid := range shardIDs(cur.Order) {
			sh := cur.Order.Shards[sid]
			if sh.Status != ordertypes.ShardCompleted {
				continue
			}
			o, ok := cur.Order.Orders[sh.OrderId]
			if !ok || o.UnitPrice.Amount.IsNil() {
				continue
			}
			inc := o.UnitPrice.Amount.MulInt64(int64(sh.Size_))
			t.Earned[sh.Sp] = decOr0(t.Earned, sh.Sp).Add(inc)
			if oi := t.Orders[sh.OrderId]; oi != nil {
				oi.Income = oi.Income.Add(inc)
			}
		}
	}
	if prev.Order != cur.Order {
		for _, id := range orderIDs(cur.Order) {
			if id > t.MaxOrderId {
				t.MaxOrderId = id
			}
		}
		for _, id := range shardIDs(cur.Order) {
			if id > t.MaxShardId {
				t.MaxShardId = id
			}
		}
	}
}

func decodeTxResp(data []byte, out interface{ Unmarshal([]byte) error }) bool {
	var td sdk.TxMsgData
	if err := td.Unmarshal(data); err != nil {
		return false
	}
	if len(td.MsgResponses) > 0 {
		return out.Unmarshal(td.MsgResponses[0].Value) == nil
	}
	if len(td.Data) > 0 {
		return out.Unmarshal(td.Data[0].Data) == nil
	}
	return false
}

func fmtAddr(s string) string { return short(strings.TrimPrefix(s, "sao1")) }

var _ = fmt.Sprintf

// usedExcess: the provider's reported used capacity minus the total size of the shards it has
// stored (completed) - capacity "reserved" for something that is not stored.
func usedExcess(s *Snap, sp string) int64 {
	pl, ok := s.Node.Pledges[sp]
	if !ok {
		return 0
	}
	var stored int64
	for _, sh := range s.Order.Shards {
		if sh.Sp == sp && sh.Status == ordertypes.ShardCompleted {
			stored += int64(sh.Size_)
		}
	}
	return pl.UsedStorage - stored
}
