package main

// oracle_life.go: C11 retention/expiry, C12 timeout progress, C15 placement,
// C16 identifiers and version linearity, C20 super-node role.

import (
	"fmt"
	"strings"

	modeltypes "github.com/SaoNetwork/sao/x/model/types"
	nodetypes "github.com/SaoNetwork/sao/x/node/types"
	ordertypes "github.com/SaoNetwork/sao/x/order/types"
	saotypes "github.com/SaoNetwork/sao/x/sao/types"
	sdk "github.com/cosmos/cosmos-sdk/types"
)

type lifeOracle struct {
	taint   map[string]bool
	waiting map[uint64]*waitInfo // orders with stalled shards
	mo, ms  uint64
}

type waitInfo struct {
	since     int64
	providers map[string]bool
	timeout   uint64
}

func newLifeOracle() *lifeOracle {
	return &lifeOracle{taint: map[string]bool{}, waiting: map[uint64]*waitInfo{}}
}
func (o *lifeOracle) Name() string { return "life" }
func (o *lifeOracle) End(e *Env)   {}

func (o *lifeOracle) once(e *Env, prop, sub, step, detail, obj, msg string) {
	key := sub + "|" + detail + "|" + obj
	if o.taint[key] {
		return
	}
	o.taint[key] = true
	e.Violate(prop, sub, step, detail, msg)
}

func (o *lifeOracle) Step(e *Env, si *StepInfo) {
	if si.Kind == "tx" && !si.OK {
		return
	}
	o.c11(e, si)
	o.c15(e, si)
	o.c16(e, si)
	o.c20(e, si)
	if si.Kind == "end" {
		o.c12(e, si)
	}
}

// ---- C11 ----------------------------------------------------------------------------

func (o *lifeOracle) c11(e *Env, si *StepInfo) {
	t := e.T
	prev, cur := si.Prev, si.Cur
	lab := stepLabel(si)
	if prev.Order != cur.Order {
		for _, sid := range shardIDs(prev.Order) {
			ps := prev.Order.Shards[sid]
			if ps.Status != ordertypes.ShardCompleted {
				continue
			}
			_, still := cur.Order.Shards[sid]
			if still {
				continue
			}
			info := t.Shards[sid]
			if info == nil {
				continue
			}
			if si.Kind == "end" {
				e.probe("shard_expired")
				if info.ExpectedEnd != si.Height {
					o.once(e, "C11", "C11.early", lab, "shard-released-off-schedule", fmt.Sprint(sid), fmt.Sprintf("completed shard %d of provider %s was released by the end-blocker at height %d; completion %d + paid duration + renewals ends at %d", sid, fmtAddr(ps.Sp), si.Height, info.CompletedAt, info.ExpectedEnd))
				}
			} else if si.Op != nil {
				switch si.Op.K {
				case "terminate", "complete", "cancel":
					// owner/grantee termination, force-push replacement, migration hand-over
				default:
					o.once(e, "C11", "C11.early", lab, "shard-removed-by-unrelated-tx", fmt.Sprint(sid), fmt.Sprintf("completed shard %d disappeared in a %s transaction before its end %d", sid, si.Op.K, info.ExpectedEnd))
				}
			}
		}
	}
	if si.Kind == "end" && prev.Order != cur.Order {
		// release: at the end of the paid term the provider gets its capacity and collateral back
		// and its income stops (per provider, over the shards released at their scheduled end in
		// this block)
		type rel struct {
			size   int64
			pledge  sdk.Int
			ids     []uint64
			natural bool
		}
		rels := map[string]*rel{}
		for _, sid := range shardIDs(prev.Order) {
			ps := prev.Order.Shards[sid]
			info := t.Shards[sid]
			if _, still := cur.Order.Shards[sid]; still || ps.Status != ordertypes.ShardCompleted || info == nil || info.MaxPledge.IsNil() {
				continue
			}
			r := rels[ps.Sp]
			if r == nil {
				r = &rel{pledge: sdk.ZeroInt()}
				rels[ps.Sp] = r
			}
			// (shards of the same provider released in this block for another reason - a timeout scan
			// giving an order up - are part of the same balance; the check runs for providers with at
			// least one shard at its scheduled end)
			if info.ExpectedEnd == si.Height {
				r.natural = true
			}
			r.size += int64(ps.Size_)
			r.pledge = r.pledge.Add(info.MaxPledge)
			r.ids = append(r.ids, sid)
		}
		for _, sp := range sortedKeys(rels) {
			r := rels[sp]
			pp, ok1 := prev.Node.Pledges[sp]
			cp, ok2 := cur.Node.Pledges[sp]
			if !ok1 || !ok2 || !r.natural {
				continue
			}
			e.probe("shard_released_at_end_of_term")
			if pp.UsedStorage-cp.UsedStorage != r.size {
				o.once(e, "C11", "C11.release", lab, "capacity-not-returned", sp, fmt.Sprintf("shards %v of provider %s (%d bytes) reached the end of their paid term at height %d but its used capacity went %d -> %d", r.ids, fmtAddr(sp), r.size, si.Height, pp.UsedStorage, cp.UsedStorage))
			}
			back := sdk.ZeroInt()
			for _, ed := range si.Edges {
				if ed.From == modAddr("node") && ed.To == sp {
					back = back.Add(ed.Amt)
				}
			}
			writtenOff := debtOf(prev, sp).Sub(debtOf(cur, sp))
			if !back.Add(writtenOff).Equal(r.pledge) {
				o.once(e, "C11", "C11.release", lab, "collateral-not-returned", sp, fmt.Sprintf("shards %v of provider %s reached the end of their paid term at height %d: collateral taken for them %s, returned %s plus %s of recorded debt written off", r.ids, fmtAddr(sp), si.Height, r.pledge, back, writtenOff))
			}
		}
	}
	if si.Kind == "end" {
		// late: nothing completed outlives its expected end
		for _, sid := range shardIDs(cur.Order) {
			cs := cur.Order.Shards[sid]
			info := t.Shards[sid]
			if cs.Status == ordertypes.ShardCompleted && info != nil && info.ExpectedEnd <= si.Height {
				o.once(e, "C11", "C11.late", lab, "shard-outlives-paid-term", fmt.Sprint(sid), fmt.Sprintf("completed shard %d still exists after the end-blocker of height %d; its paid term ended at %d", sid, si.Height, info.ExpectedEnd))
			}
		}
	}
	// model: never disappears while a paid, unexpired shard of it remains
	if prev.Model != cur.Model {
		for _, id := range sortedKeys(prev.Model.Metas) {
			if _, still := cur.Model.Metas[id]; still {
				continue
			}
			if si.Kind == "tx" && si.Op != nil && (si.Op.K == "terminate" || si.Op.K == "cancel") {
				continue
			}
			e.probe("model_expired")
			for _, sid := range shardIDs(cur.Order) {
				cs := cur.Order.Shards[sid]
				if cs.Status != ordertypes.ShardCompleted {
					continue
				}
				if ord, ok := cur.Order.Orders[cs.OrderId]; ok && ord.DataId == id {
					o.once(e, "C11", "C11.model", lab, "model-removed-with-live-shard", id, fmt.Sprintf("data model %s disappeared at height %d while its completed shard %d (provider %s) is paid until %d", id, si.Height, sid, fmtAddr(cs.Sp), cs.CreatedAt+cs.Duration))
				}
			}
		}
	}
	if si.Kind == "end" && prev.Order != cur.Order {
		// when a model's last shard goes at expiry, order and model are gone by the end of the block
		for _, sid := range shardIDs(prev.Order) {
			ps := prev.Order.Shards[sid]
			if _, still := cur.Order.Shards[sid]; still || ps.Status != ordertypes.ShardCompleted {
				continue
			}
			po, ok := prev.Order.Orders[ps.OrderId]
			if !ok {
				continue
			}
			data := po.DataId
			remaining := 0
			for _, x := range cur.Order.Shards {
				// (a migration target that was never stored, or a shard that timed out, is not a shard
				// of the model that could still "go")
				if x.Status == ordertypes.ShardMigrating || x.Status == ordertypes.ShardTimeout {
					continue
				}
				if ord, ok := cur.Order.Orders[x.OrderId]; ok && ord.DataId == data {
					remaining++
				}
			}
			inflight := false
			for _, ord := range cur.Order.Orders {
				if ord.DataId == data && ord.Status != ordertypes.OrderCompleted {
					inflight = true
				}
			}
			if remaining == 0 && !inflight {
				if _, has := cur.Model.Metas[data]; has {
					o.once(e, "C11", "C11.model", lab, "model-outlives-last-shard", data, fmt.Sprintf("last shard %d of data %s expired at height %d but the data model still exists", sid, data, si.Height))
				}
				for _, ord := range cur.Order.Orders {
					if ord.DataId == data {
						o.once(e, "C11", "C11.model", lab, "order-outlives-last-shard", data, fmt.Sprintf("last shard %d of data %s expired at height %d but order %d still exists", sid, data, si.Height, ord.Id))
					}
				}
			}
		}
	}
}

// ---- C12 ----------------------------------------------------------------------------

func hasWaiting(s *Snap, ord ordertypes.Order) (int, int) {
	w, c := 0, 0
	for _, sid := range ord.Shards {
		if sh, ok := s.Order.Shards[sid]; ok {
			if sh.Status == ordertypes.ShardWaiting {
				w++
			}
			if sh.Status == ordertypes.ShardCompleted {
				c++
			}
		}
	}
	return w, c
}

func (o *lifeOracle) c12(e *Env, si *StepInfo) {
	prev, cur := si.Prev, si.Cur
	h := uint64(si.Height)
	sched := map[uint64]uint64{} // order -> nearest future height
	for at, ids := range cur.Sao.Timeouts {
		if at <= h {
			continue
		}
		for _, id := range ids {
			if x, ok := sched[id]; !ok || at < x {
				sched[id] = at
			}
		}
	}
	for _, id := range orderIDs(cur.Order) {
		ord := cur.Order.Orders[id]
		if ord.Operation == 3 {
			continue
		}
		w, _ := hasWaiting(cur, ord)
		pending := ord.Status == ordertypes.OrderPending
		if !pending && si.Kind == "end" && h < ord.CreatedAt+ord.Duration {
			// (before the first of its shards can expire) every replica that is paid for is either stored or still being worked on; a replica
			// that is neither has been given up and must have been taken off the order (and refunded)
			live := 0
			for _, sid := range ord.Shards {
				if sh, ok := cur.Order.Shards[sid]; ok && sh.Status != ordertypes.ShardTimeout {
					live++
				}
			}
			if live < int(ord.Replica) {
				o.once(e, "C12", "C12.unfulfilled", "block", "replica-neither-stored-nor-in-progress", fmt.Sprint(id), fmt.Sprintf("order %d pays for %d replicas but only %d shard(s) are stored or in progress at height %d (shards %v): the unfulfilled replica is neither re-assigned nor refunded", id, ord.Replica, live, h, ord.Shards))
			}
		}
		if w == 0 && !pending {
			delete(o.waiting, id)
			continue
		}
		if pending {
			continue // not handed to providers yet (C12 speaks about handed-out orders)
		}
		wi := o.waiting[id]
		if wi == nil {
			wi = &waitInfo{since: si.Height, providers: map[string]bool{}, timeout: ord.Timeout}
			o.waiting[id] = wi
			e.probe("order_with_stalled_shards")
		}
		for _, sid := range ord.Shards {
			if sh, ok := cur.Order.Shards[sid]; ok {
				wi.providers[sh.Sp] = true
			}
		}
		at, ok := sched[id]
		if !ok || at > h+ord.Timeout {
			o.once(e, "C12", "C12.queued", "block", "stalled-order-not-scheduled", fmt.Sprint(id), fmt.Sprintf("order %d (timeout %d, created %d, duration %d) has %d stalled shard(s) at height %d but its next examination is %v (scheduled=%v)", id, ord.Timeout, ord.CreatedAt, ord.Duration, w, h, at, ok))
		}
		// bound: resolution within 12 + (#providers ever assigned) rounds of `timeout` blocks
		if ord.Timeout > 0 && ord.Timeout < 1<<20 {
			rounds := uint64(12 + len(wi.providers))
			if h > uint64(wi.since)+rounds*ord.Timeout+2 {
				o.once(e, "C12", "C12.bound", "block", "stalled-order-unresolved", fmt.Sprint(id), fmt.Sprintf("order %d stalled since height %d is still unresolved at %d: more than %d rounds of %d blocks", id, wi.since, h, rounds, ord.Timeout))
			}
		}
	}
	for id := range o.waiting {
		if _, ok := cur.Order.Orders[id]; !ok {
			delete(o.waiting, id)
		}
	}
	// after: a fully stored order is not touched by the timeout mechanism
	if prev.Order != cur.Order {
		if _, examined := prev.Sao.Timeouts[h]; examined {
			for _, id := range prev.Sao.Timeouts[h] {
				po, ok := prev.Order.Orders[id]
				if !ok || po.Status != ordertypes.OrderCompleted {
					continue
				}
				w, c := hasWaiting(prev, po)
				// fully stored: as many stored shards as paid replicas (a stray waiting shard next to them
				// does not make the order any less stored)
				full := c >= int(po.Replica) && (w > 0 || c == len(po.Shards))
				if !full {
					continue
				}
				e.probe("timeout_scan_of_fully_stored_order")
				co, still := cur.Order.Orders[id]
				expired := false
				for _, sid := range po.Shards {
					if info := e.T.Shards[sid]; info != nil && info.ExpectedEnd == si.Height {
						expired = true
					}
				}
				if expired {
					continue
				}
				if !still || fmt.Sprint(co.Shards) != fmt.Sprint(po.Shards) || co.Replica != po.Replica || !co.Amount.IsEqual(po.Amount) {
					o.once(e, "C12", "C12.after", "block", "fully-stored-order-altered-by-timeout-scan", fmt.Sprint(id), fmt.Sprintf("order %d was fully stored (%d/%d shards) yet the timeout scan at height %d changed it: shards %v -> %v, replica %d -> %d", id, c, po.Replica, h, po.Shards, co.Shards, po.Replica, co.Replica))
				}
			}
		}
	}
}

// ---- C15 ----------------------------------------------------------------------------

const reputationFloor = 8000.0 // assumption taken from the anchored selection code

func (o *lifeOracle) c15(e *Env, si *StepInfo) {
	prev, cur := si.Prev, si.Cur
	if prev.Order == cur.Order {
		return
	}
	lab := stepLabel(si)
	newByOrder := map[uint64][]ordertypes.Shard{}
	for _, sid := range shardIDs(cur.Order) {
		if _, had := prev.Order.Shards[sid]; !had {
			cs := cur.Order.Shards[sid]
			newByOrder[cs.OrderId] = append(newByOrder[cs.OrderId], cs)
		}
	}
	need := nodetypes.NODE_STATUS_ONLINE | nodetypes.NODE_STATUS_SERVE_STORAGE | nodetypes.NODE_STATUS_ACCEPT_ORDER
	for oid, shs := range newByOrder {
		e.probe("providers_selected")
		ord, ok := cur.Order.Orders[oid]
		existing := map[string]uint64{}
		if po, had := prev.Order.Orders[oid]; had {
			for _, sid := range po.Shards {
				if sh, ok := prev.Order.Shards[sid]; ok {
					existing[sh.Sp] = sid
				}
			}
		}
		seen := map[string]bool{}
		reused := map[string]bool{}
		if ok && ord.Operation == 2 {
			// force-push keeps the current holders of the data
			if pm, ok := prev.Model.Metas[ord.DataId]; ok {
				if lo, ok := prev.Order.Orders[pm.OrderId]; ok {
					for _, sid := range lo.Shards {
						if sh, ok := prev.Order.Shards[sid]; ok {
							reused[sh.Sp] = true
						}
					}
				}
			}
		}
		for _, sh := range shs {
			if seen[sh.Sp] {
				o.once(e, "C15", "C15.distinct", lab, "same-provider-chosen-twice", fmt.Sprint(oid), fmt.Sprintf("order %d: provider %s chosen for two new shards", oid, fmtAddr(sh.Sp)))
			}
			seen[sh.Sp] = true
			if oi := e.T.Orders[oid]; oi != nil && oi.TimedOut[sh.Sp] {
				if _, listed := existing[sh.Sp]; !listed {
					o.once(e, "C15", "C15.distinct", lab, "provider-timed-out-earlier-on-order", fmt.Sprint(oid), fmt.Sprintf("order %d: new shard %d assigned to %s, which timed out on a shard of that order earlier (the record of that shard has been cleared since)", oid, sh.Id, fmtAddr(sh.Sp)))
				}
			}
			if old, dup := existing[sh.Sp]; dup {
				o.once(e, "C15", "C15.distinct", lab, "provider-already-holds-shard-of-order", fmt.Sprint(oid), fmt.Sprintf("order %d: new shard %d assigned to %s which already holds or timed out on shard %d of that order", oid, sh.Id, fmtAddr(sh.Sp), old))
			}
			if reused[sh.Sp] {
				e.probe("force_push_reuses_holder")
				continue
			}
			n, okn := prev.Node.Nodes[sh.Sp]
			pl, okp := prev.Node.Pledges[sh.Sp]
			switch {
			case !okn:
				o.once(e, "C15", "C15.eligible", lab, "chosen-provider-not-a-node", sh.Sp, fmt.Sprintf("order %d: shard %d assigned to unregistered %s", oid, sh.Id, fmtAddr(sh.Sp)))
			case n.Status&need != need:
				o.once(e, "C15", "C15.eligible", lab, "chosen-provider-status", sh.Sp, fmt.Sprintf("order %d: shard %d assigned to %s with status %d (needs online|storage|accept)", oid, sh.Id, fmtAddr(sh.Sp), n.Status))
			case n.Reputation < reputationFloor:
				o.once(e, "C15", "C15.eligible", lab, "chosen-provider-reputation", sh.Sp, fmt.Sprintf("order %d: shard %d assigned to %s with reputation %v", oid, sh.Id, fmtAddr(sh.Sp), n.Reputation))
			case !okp || pl.TotalStorage-pl.UsedStorage < int64(sh.Size_):
				o.once(e, "C15", "C15.eligible", lab, "chosen-provider-capacity", sh.Sp, fmt.Sprintf("order %d: shard %d of %d bytes assigned to %s with %d free", oid, sh.Id, sh.Size_, fmtAddr(sh.Sp), pl.TotalStorage-pl.UsedStorage))
			}
		}
		if _, had := prev.Order.Orders[oid]; !had && ok && si.Kind == "tx" && si.Op != nil && si.Op.K == "store" {
			if len(shs) != int(ord.Replica) {
				o.once(e, "C15", "C15.count", lab, "new-order-under-or-over-replicated", fmt.Sprint(oid), fmt.Sprintf("new order %d requests %d replicas but %d providers were assigned", oid, ord.Replica, len(shs)))
			}
		}
	}
}

// ---- C16 ----------------------------------------------------------------------------

func (o *lifeOracle) c16(e *Env, si *StepInfo) {
	t := e.T
	prev, cur := si.Prev, si.Cur
	lab := stepLabel(si)
	if prev.Order != cur.Order {
		// ids: new ids exceed every id ever seen (trackOracle updates the maxima after us? no: before;
		// so compare against the previous snapshot's counters instead)
		for _, id := range orderIDs(cur.Order) {
			if _, had := prev.Order.Orders[id]; had {
				continue
			}
			if id < prev.Order.OrderCount || (o.taint["seenOrder"] && id <= o.maxOrder()) {
				o.once(e, "C16", "C16.ids", lab, "order-id-reused", fmt.Sprint(id), fmt.Sprintf("new order id %d is not above the ids issued before (counter was %d)", id, prev.Order.OrderCount))
			}
			o.setMaxOrder(id)
		}
		for _, id := range shardIDs(cur.Order) {
			if _, had := prev.Order.Shards[id]; had {
				continue
			}
			if id < prev.Order.ShardCount || (o.taint["seenShard"] && id <= o.maxShard()) {
				o.once(e, "C16", "C16.ids", lab, "shard-id-reused", fmt.Sprint(id), fmt.Sprintf("new shard id %d is not above the ids issued before (counter was %d)", id, prev.Order.ShardCount))
			}
			o.setMaxShard(id)
		}
		if cur.Order.OrderCount < prev.Order.OrderCount || cur.Order.ShardCount < prev.Order.ShardCount {
			o.once(e, "C16", "C16.ids", lab, "id-counter-decreased", "", fmt.Sprintf("id counters went from %d/%d to %d/%d", prev.Order.OrderCount, prev.Order.ShardCount, cur.Order.OrderCount, cur.Order.ShardCount))
		}
	}
	// inflight: at most one update in flight per data id (block boundaries)
	if si.Kind == "end" {
		n := map[string][]uint64{}
		for _, id := range orderIDs(cur.Order) {
			ord := cur.Order.Orders[id]
			if ord.Operation != 3 && ord.Status != ordertypes.OrderCompleted {
				n[ord.DataId] = append(n[ord.DataId], id)
			}
		}
		for d, ids := range n {
			if len(ids) > 1 {
				o.once(e, "C16", "C16.inflight", "block", "two-updates-in-flight", d, fmt.Sprintf("data %s has %d orders in flight: %v", d, len(ids), ids))
			}
		}
	}
	// base: an accepted update names the latest committed version exactly
	if si.Kind == "tx" && si.OK && si.Op != nil && si.Op.K == "store" {
		st, _ := si.Built.Msgs[0].(*saotypes.MsgStore)
		if st != nil {
			if pm, had := prev.Model.Metas[st.Proposal.DataId]; had {
				e.probe("update_accepted")
				base := st.Proposal.CommitId
				if i := strings.Index(base, "|"); i >= 0 {
					base = base[:i]
				}
				// the latest committed version: the last entry of the committed history (the model's head
				// pointer must agree with it whenever no update is in flight)
				latest := pm.Commit
				if n := len(pm.Commits); n > 0 {
					latest = strings.SplitN(pm.Commits[n-1], "\x1a", 2)[0]
				}
				if base != latest {
					o.once(e, "C16", "C16.base", lab, "update-accepted-on-wrong-base", st.Proposal.DataId, fmt.Sprintf("update of data %s accepted with base %q (commit field %q) but the latest committed version is %q (head pointer %q)", st.Proposal.DataId, base, st.Proposal.CommitId, latest, pm.Commit))
				}
				if pm.Status != modeltypes.MetaComplete {
					o.once(e, "C16", "C16.inflight", lab, "update-accepted-while-in-flight", st.Proposal.DataId, fmt.Sprintf("update of data %s accepted while the model status is %d", st.Proposal.DataId, pm.Status))
				}
			}
		}
	}
	// chain: committed history grows by one entry whose predecessor was the latest
	if prev.Model != cur.Model {
		for _, id := range sortedKeys(cur.Model.Metas) {
			pm, had := prev.Model.Metas[id]
			cm := cur.Model.Metas[id]
			if !had || fmt.Sprint(pm.Commits) == fmt.Sprint(cm.Commits) {
				continue
			}
			pc, cc := pm.Commits, cm.Commits
			okAppend := len(cc) == len(pc)+1 && fmt.Sprint(cc[:len(pc)]) == fmt.Sprint(pc)
			okReplace := len(pc) > 0 && len(cc) == len(pc) && fmt.Sprint(cc[:len(pc)-1]) == fmt.Sprint(pc[:len(pc)-1])
			if !okAppend && !okReplace {
				o.once(e, "C16", "C16.chain", lab, "history-not-a-single-chain", id, fmt.Sprintf("data %s: committed history went from %d to %d entries in a way that is neither append nor replace-last", id, len(pc), len(cc)))
			}
		}
	}
	_ = t
}

func (o *lifeOracle) maxOrder() uint64 { return o.mo }
func (o *lifeOracle) maxShard() uint64 { return o.ms }
func (o *lifeOracle) setMaxOrder(x uint64) {
	o.taint["seenOrder"] = true
	if x > o.mo {
		o.mo = x
	}
}
func (o *lifeOracle) setMaxShard(x uint64) {
	o.taint["seenShard"] = true
	if x > o.ms {
		o.ms = x
	}
}

// ---- C20 ----------------------------------------------------------------------------

func (o *lifeOracle) c20(e *Env, si *StepInfo) {
	prev, cur := si.Prev, si.Cur
	if prev.Node == cur.Node && prev.Stk == cur.Stk {
		return
	}
	lab := stepLabel(si)
	thr, _ := sdk.NewDecFromStr(e.W.Cfg.Node.ShareThreshold)
	for _, k := range sortedKeys(cur.Node.Nodes) {
		n := cur.Node.Nodes[k]
		if n.Role != nodetypes.NODE_SUPER {
			continue
		}
		e.probe("super_node_present")
		pn, had := prev.Node.Nodes[k]
		promoted := !had || pn.Role != nodetypes.NODE_SUPER
		if promoted {
			e.probe("super_node_promoted")
		}
		why := ""
		touched := !had || pn.Status != n.Status || pn.Role != n.Role
		if si.Kind == "tx" && touched && n.Status&nodetypes.NODE_STATUS_SUPER_REQUIREMENT != nodetypes.NODE_STATUS_SUPER_REQUIREMENT {
			why = fmt.Sprintf("status %d lacks the full service bits", n.Status)
		} else if pl, ok := cur.Node.Pledges[k]; !ok || pl.TotalStorage < e.W.Cfg.Node.VstorageThreshold {
			why = fmt.Sprintf("pledged capacity %d below threshold %d", pl.TotalStorage, e.W.Cfg.Node.VstorageThreshold)
		} else {
			// the declared validator as the staking module spells it (bech32 is case-insensitive as a whole)
			valS := n.Validator
			if va, err := sdk.ValAddressFromBech32(n.Validator); err == nil {
				valS = va.String()
			}
			d, okd := cur.Stk.Dels[k+"|"+valS]
			v, okv := cur.Stk.Vals[valS]
			switch {
			case n.Validator == "" || !okd || !okv:
				why = fmt.Sprintf("no delegation to declared validator %q", n.Validator)
			case v.DelegatorShares.IsZero() || d.Shares.Quo(v.DelegatorShares).LT(thr):
				why = fmt.Sprintf("own delegation %s of validator total %s is below the configured fraction %s", d.Shares, v.DelegatorShares, thr)
			}
		}
		if why != "" {
			sub := "C20.inv"
			det := "super-role-without-requirements"
			if promoted {
				sub, det = "C20.promote", "promoted-without-requirements"
			}
			o.once(e, "C20", sub, lab, det, k, fmt.Sprintf("node %s holds the super role after %s but %s", fmtAddr(k), lab, why))
		}
	}
}
