package main

import (
	"encoding/json"
	"fmt"
	"os"
	"sort"
)

type evSummary struct {
	probes map[string]int64
	blocks int64
}

var realStub = map[string]interface{}{
	"real": []string{"app.App (app.New, InitChainer, Begin/EndBlocker, export)", "x/sao, x/node, x/order, x/model, x/did, x/market keepers, msg servers, blockers, hooks, genesis", "cosmos-sdk v0.46.2 baseapp + ante handler (real signature verification, sequences, gas), auth, bank, staking, slashing, distribution, mint, params, gov, genutil (gentx)", "rootmulti + IAVL commit stores (real app hash)", "sao-did v0.0.12 JWS signing and verification"},
	"stub": []string{"sequencer (stands in for Tendermint consensus/mempool/p2p; builds headers, votes, validator-set updates at H+2)", "MemDB instead of LevelDB; crash = drop App object, keep DB, at ABCI-call granularity", "actors (gateway/SP/wallet/fishman software) as seeded state machines", "wall clock / map order / process lifetime owned by the simulator through the instrumenter"},
}

func writeEvidence(prop, tier string, seed uint64, results []indexedResult, wall float64, nViol int, knownHits map[string]int) evSummary {
	sum := evSummary{probes: map[string]int64{}}
	txs := map[string]int64{}
	faults := map[string]int64{}
	states := map[string]bool{}
	pairs := map[string]bool{}
	traces := map[string]bool{}
	nontrivial := map[string]bool{}
	var simSeconds, unresolved int64
	byProfile := map[string]int{}
	var samples []interface{}
	var maxTicks int64
	dead := 0
	for _, r := range results {
		if r.Stats == nil {
			continue
		}
		byProfile[r.Profile]++
		sum.blocks += r.Stats.Blocks
		simSeconds += r.Stats.SimSeconds
		unresolved += r.Stats.Unresolved
		for k, v := range r.Stats.Txs {
			txs[k] += v
		}
		for k, v := range r.Stats.Faults {
			faults[k] += v
		}
		for k, v := range r.Stats.Probes {
			sum.probes[k] += v
		}
		for _, s := range r.StatesList {
			states[s] = true
		}
		for _, s := range r.PairsList {
			pairs[s] = true
		}
		traces[r.TraceHash] = true
		if r.MaxTicks > maxTicks {
			maxTicks = r.MaxTicks
		}
		if r.Dead {
			dead++
		}
		nt := true
		for _, p := range propProbes[prop] {
			if r.Stats.Probes[p] == 0 {
				nt = false
			}
		}
		okTx := int64(0)
		for k, v := range r.Stats.Txs {
			if len(k) > 3 && k[len(k)-3:] == ":ok" {
				okTx += v
			}
		}
		if okTx < 5 {
			nt = false
		}
		if nt {
			nontrivial[r.TraceHash] = true
		}
		if len(samples) < 3 && r.Trace != nil {
			samples = append(samples, sampleOf(r.Trace, r.Seed, r.Profile))
		}
	}
	if len(samples) == 0 {
		for _, r := range results {
			if len(samples) < 2 {
				samples = append(samples, map[string]interface{}{"seed": r.Seed, "profile": r.Profile, "steps": r.Steps, "height": r.Height, "trace_hash": r.TraceHash, "digest": r.Digest})
			}
		}
	}
	var first, last uint64
	if len(results) > 0 {
		first, last = results[0].Seed, results[len(results)-1].Seed
	}
	cov := map[string]interface{}{
		"evaluations":                  len(results),
		"distinct_nontrivial":          len(nontrivial),
		"rule":                         "one evaluation = one seeded simulated run (swarm-drawn configuration, adaptive trace of blocks/transactions/faults executed on the real app through ABCI). Non-trivial = at least 5 successful transactions and every mandatory probe of this property hit; distinct = distinct hash of the materialised trace.",
		"samples":                      samples,
		"runs_by_profile":              byProfile,
		"run_seeds":                    map[string]uint64{"first": first, "last": last},
		"runs_per_hour":                float64(len(results)) / wall * 3600,
		"simulated_blocks":             sum.blocks,
		"simulated_seconds":            simSeconds,
		"txs_by_kind_result":           txs,
		"faults_fired":                 faults,
		"probes":                       sum.probes,
		"distinct_abstract_states":     len(states),
		"distinct_adjacent_op_pairs":   len(pairs),
		"state_measure":                "hash of: multiset (capped at 3) of order (status,operation), multiset of shard (status,#renewals), #debts, #faults, #super nodes, #models (capped)",
		"unresolved_ops":               unresolved,
		"runs_ended_by_chain_halt":     dead,
		"max_loop_ticks_per_abci_call": maxTicks,
		"known_findings_matched":       knownHits,
		"components":                   realStub,
	}
	ev := map[string]interface{}{
		"property_id": prop,
		"tier":        tier,
		"seed":        seed,
		"level":       "exploration",
		"coverage":    cov,
		"assumptions": append([]string{"Tendermint is replaced by a sequencer stub that follows the 0.34 ABCI contract", "crash granularity is the ABCI call; Commit is atomic", "a clean batch is evidence, not proof"}, oracleAssumptions[prop]...),
		"wall_s":      wall,
		"violations":  nViol,
	}
	os.MkdirAll(evidenceDir(), 0o755)
	b, _ := json.MarshalIndent(ev, "", " ")
	os.WriteFile(fmt.Sprintf("%s/%s.json", evidenceDir(), prop), b, 0o644)
	return sum
}

func sampleOf(t *Trace, seed uint64, profile string) interface{} {
	var ops []string
	for si, s := range t.Steps {
		if s.Idle > 0 {
			ops = append(ops, fmt.Sprintf("idle×%d", s.Idle))
			continue
		}
		for _, o := range s.Ops {
			if len(ops) > 60 {
				break
			}
			ops = append(ops, fmt.Sprintf("b%d:%s(a=%d,d=%d%s)", si, o.K, o.A, o.D, o.Note))
		}
	}
	ks := []string{}
	_ = sort.Strings
	return map[string]interface{}{"seed": seed, "profile": profile, "config": t.Cfg, "steps": len(t.Steps), "ops_prefix": ops, "x": ks}
}

// oracleAssumptions: what the oracles of a property take from the anchored code or read into the
// statement, beyond the statement's own words.
var oracleAssumptions = map[string][]string{
	"C04": {"income is judged against bytes x blocks actually stored with a tolerance of one coin per shard settlement"},
	"C07": {"capacity is bought and sold at one rate (bytes per pledged coin), learnt from the first purchase of the run"},
	"C08": {"total reward cap 4e14 and halving ages as documented in x/node/abci.go; age computed exactly in integers"},
	"C11": {"a shard's paid term = completion height + duration + queued renewal durations, tracked by the harness from completion/renewal/migration events"},
	"C12": {"resolution bound checked as 12 + (#providers ever assigned) intervals of the order's timeout"},
	"C15": {"reputation floor 8000 taken from the anchored selection code"},
	"C17": {"binding-proof freshness window of 15 minutes taken from the anchored code"},
	"C19": {"'holds' = the shard is stored (completed or being migrated away) and serves the named order or a renewal queued on it"},
	"C20": {"the declared validator is compared as an address (bech32 spelling normalised)"},
}
