package main

import (
	"fmt"
	"os"
	"time"
)

func main() {
	if len(os.Args) < 2 {
		fmt.Println("usage: saosim <cmd>")
		os.Exit(2)
	}
	switch os.Args[1] {
	case "hello":
		hello()
	case "worker":
		cmdWorker()
	case "check":
		cmdCheck(os.Args[2:])
	case "replay":
		cmdReplay(os.Args[2:])
	case "run":
		cmdRun(os.Args[2:])
	default:
		fmt.Println("unknown command")
		os.Exit(2)
	}
}

func hello() {
	cfg := Config{NOwners: 2, NGateways: 1, NSPs: 4, NValidators: 2, NDelegators: 1, UnbondingS: 100,
		Node: NodeParams{BlockReward: 1000, Baseline: 100000, APY: "0.5", HalvingPeriod: 100, AdjustmentPeriod: 20, MaxPenalty: 100, ShareThreshold: "0.1", VstorageThreshold: 1000000, OfflineTrigger: 1800}}
	w := NewWorld(cfg)
	gen := w.Genesis()
	r := NewReplica("R0")
	defer r.Close()
	seq, pi := r.InitChain(gen, 1, genesisTime)
	if pi != nil {
		fmt.Println("panic", pi)
		os.Exit(2)
	}
	t0 := time.Now()
	for i := 0; i < 1000; i++ {
		b := seq.NextBlock(5*time.Second, nil, nil, nil)
		_, pi := r.BeginBlock(b)
		if pi != nil {
			fmt.Println("panic", pi.Value, pi.Stack)
			os.Exit(2)
		}
		eb, pi := r.EndBlock(b)
		if pi != nil {
			fmt.Println("panic", pi.Value, pi.Stack)
			os.Exit(2)
		}
		h, _ := r.Commit()
		seq.Advance(b, eb.ValidatorUpdates, h)
	}
	fmt.Printf("1000 blocks in %v apphash %x vals %d\n", time.Since(t0), seq.AppHash, len(seq.cur))
}
