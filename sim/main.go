package main

import (
	"encoding/json"
	"fmt"
	"os"
	"os/exec"
	"strings"
	"sync"
	"time"
)

var extraCmds = map[string]func([]string){}

func main() {
	if len(os.Args) < 2 {
		fmt.Println("usage: saosim <cmd>")
		os.Exit(2)
	}
	switch os.Args[1] {
	case "hello":
		hello()
	case "worker":
		cmdWorker()
	case "check":
		cmdCheck(os.Args[2:])
	case "replay":
		cmdReplay(os.Args[2:])
	case "run":
		cmdRun(os.Args[2:])
	default:
		if f, ok := extraCmds[os.Args[1]]; ok {
			f(os.Args[2:])
			return
		}
		fmt.Println("unknown command")
		os.Exit(2)
	}
}

func hello() {
	cfg := Config{NOwners: 2, NGateways: 1, NSPs: 4, NValidators: 2, NDelegators: 1, UnbondingS: 100,
		Node: NodeParams{BlockReward: 1000, Baseline: 100000, APY: "0.5", HalvingPeriod: 100, AdjustmentPeriod: 20, MaxPenalty: 100, ShareThreshold: "0.1", VstorageThreshold: 1000000, OfflineTrigger: 1800}}
	w := NewWorld(cfg)
	gen := w.Genesis()
	r := NewReplica("R0")
	defer r.Close()
	seq, pi := r.InitChain(gen, 1, genesisTime)
	if pi != nil {
		fmt.Println("panic", pi)
		os.Exit(2)
	}
	t0 := time.Now()
	for i := 0; i < 1000; i++ {
		b := seq.NextBlock(5*time.Second, nil, nil, nil)
		_, pi := r.BeginBlock(b)
		if pi != nil {
			fmt.Println("panic", pi.Value, pi.Stack)
			os.Exit(2)
		}
		eb, pi := r.EndBlock(b)
		if pi != nil {
			fmt.Println("panic", pi.Value, pi.Stack)
			os.Exit(2)
		}
		h, _ := r.Commit()
		seq.Advance(b, eb.ValidatorUpdates, h)
	}
	fmt.Printf("1000 blocks in %v apphash %x vals %d\n", time.Since(t0), seq.AppHash, len(seq.cur))
}

func init() {
	extraCmds["shrinktest"] = func(args []string) {
		b, _ := os.ReadFile(args[0])
		var rf ReplayFile
		json.Unmarshal(b, &rf)
		opt := RunOpts{Props: map[string]bool{rf.Property: true}, Fuel: rf.Fuel, Mode: rf.Mode}
		t0 := time.Now()
		m := Shrink(rf.Trace, rf.Signature, opt, 120*time.Second, 300)
		fmt.Println("shrunk to", len(m.Steps), "steps", countOps(m), "ops in", time.Since(t0))
		for i := 0; i < 3; i++ {
			res := Replay(m, opt)
			ok := false
			for _, v := range res.Violations {
				if v.Sig() == rf.Signature {
					ok = true
				}
			}
			fmt.Println("in-process replay", i, ok, res.Digest)
		}
		rf.Trace = m
		ob, _ := json.MarshalIndent(rf, "", " ")
		os.WriteFile(args[1], ob, 0o644)
	}
}

func init() {
	// find: run one seed/profile for a property; on violation minimise and write a replay file
	extraCmds["find"] = func(args []string) {
		prop, prof, mode := "C02", "mixed", ""
		seed := uint64(1)
		for i := 0; i+1 < len(args); i += 2 {
			switch args[i] {
			case "-prop":
				prop = args[i+1]
			case "-profile":
				prof = args[i+1]
			case "-mode":
				mode = args[i+1]
			case "-seed":
				fmt.Sscan(args[i+1], &seed)
			}
		}
		sp := RunSpec{Seed: seed, Profile: prof, Prop: prop, Fuel: 5_000_000, Stop: true, Mode: mode}
		res := execSpec(sp, LoadKnown(knownPath()))
		if len(res.Violations) == 0 {
			fmt.Println("no violation")
			return
		}
		v := res.Violations[0]
		fmt.Println(v.Sig(), "\n ", v.Msg)
		fmt.Println(reportViolation(prop, res.Trace, v, sp))
	}
}

func init() {
	// selftest-determinism: every seed is executed in several fresh processes under different
	// GOMAXPROCS; event-log digest, trace hash and violation list must be identical.
	extraCmds["selftest-determinism"] = func(args []string) {
		n := int(envInt("VERIF_SELFTEST_SEEDS", 40))
		base := uint64(envInt("VERIF_SEED", 1))
		self, _ := os.Executable()
		type spec struct {
			prof, mode string
		}
		specs := []spec{{"mixed", ""}, {"did", "c01"}, {"staking", "c03"}, {"timeout", ""}, {"faults", "c18"}, {"authz", ""}}
		type key struct {
			i int
			p int
		}
		results := map[key]string{}
		var mu sync.Mutex
		var wg sync.WaitGroup
		sem := make(chan struct{}, 16)
		bad := 0
		for i := 0; i < n; i++ {
			for pi, procs := range []string{"1", "4", "16"} {
				wg.Add(1)
				go func(i, pi int, procs string) {
					defer wg.Done()
					sem <- struct{}{}
					defer func() { <-sem }()
					sp := specs[i%len(specs)]
					rs := RunSpec{Index: i, Seed: runSeed(base, i), Profile: sp.prof, Prop: "ALL", Mode: sp.mode, Fuel: 5_000_000}
					b, _ := json.Marshal(rs)
					cmd := exec.Command(self, "worker")
					cmd.Env = append(os.Environ(), "GOMAXPROCS="+procs)
					cmd.Stdin = strings.NewReader(string(b) + "\n")
					out, err := cmd.Output()
					var r indexedResult
					if err != nil || json.Unmarshal(out, &r) != nil {
						mu.Lock()
						bad++
						fmt.Println("worker failed for seed", rs.Seed, err)
						mu.Unlock()
						return
					}
					var sigs []string
					for _, v := range r.Violations {
						sigs = append(sigs, v.Sig())
					}
					mu.Lock()
					results[key{i, pi}] = fmt.Sprintf("%s|%s|%d|%v|%v", r.Digest, r.TraceHash, r.Height, sigs, r.Stats.Faults)
					mu.Unlock()
				}(i, pi, procs)
			}
		}
		wg.Wait()
		for i := 0; i < n; i++ {
			a := results[key{i, 0}]
			for pi := 1; pi < 3; pi++ {
				if results[key{i, pi}] != a {
					bad++
					fmt.Printf("NONDETERMINISM run %d (seed %d, profile %s): \n  %s\n  %s\n", i, runSeed(base, i), specs[i%len(specs)].prof, a, results[key{i, pi}])
				}
			}
		}
		fmt.Printf("selftest-determinism: %d seeds x 3 processes (GOMAXPROCS 1/4/16), %d mismatches\n", n, bad)
		if bad > 0 {
			os.Exit(2)
		}
	}
}
