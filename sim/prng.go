package main

// Own PRNG (splitmix64 seeding, xoshiro256**) so that results do not depend on the
// Go version's math/rand. Named sub-streams are derived by hashing the name.

type Rng struct{ s [4]uint64 }

func splitmix(x *uint64) uint64 {
	*x += 0x9e3779b97f4a7c15
	z := *x
	z = (z ^ (z >> 30)) * 0xbf58476d1ce4e5b9
	z = (z ^ (z >> 27)) * 0x94d049bb133111eb
	return z ^ (z >> 31)
}

func NewRng(seed uint64) *Rng {
	r := &Rng{}
	x := seed
	for i := range r.s {
		r.s[i] = splitmix(&x)
	}
	return r
}

func fnv64(s string) uint64 {
	h := uint64(14695981039346656037)
	for i := 0; i < len(s); i++ {
		h ^= uint64(s[i])
		h *= 1099511628211
	}
	return h
}

// Sub derives an independent stream.
func (r *Rng) Sub(name string) *Rng {
	x := r.s[0] ^ fnv64(name)
	y := r.s[1] + fnv64(name)*0x9e3779b97f4a7c15
	return NewRng(splitmix(&x) ^ splitmix(&y))
}

func rotl(x uint64, k uint) uint64 { return (x << k) | (x >> (64 - k)) }

func (r *Rng) U64() uint64 {
	res := rotl(r.s[1]*5, 7) * 9
	t := r.s[1] << 17
	r.s[2] ^= r.s[0]
	r.s[3] ^= r.s[1]
	r.s[1] ^= r.s[2]
	r.s[0] ^= r.s[3]
	r.s[2] ^= t
	r.s[3] = rotl(r.s[3], 45)
	return res
}

// Intn returns a value in [0,n). n<=0 returns 0.
func (r *Rng) Intn(n int) int {
	if n <= 1 {
		return 0
	}
	return int(r.U64() % uint64(n))
}

// Range returns a value in [lo,hi].
func (r *Rng) Range(lo, hi int) int {
	if hi <= lo {
		return lo
	}
	return lo + r.Intn(hi-lo+1)
}

func (r *Rng) F() float64 { return float64(r.U64()>>11) / float64(1<<53) }

func (r *Rng) Chance(p float64) bool { return r.F() < p }

func (r *Rng) Perm(n int) []int {
	p := make([]int, n)
	for i := range p {
		p[i] = i
	}
	for i := n - 1; i > 0; i-- {
		j := r.Intn(i + 1)
		p[i], p[j] = p[j], p[i]
	}
	return p
}

func (r *Rng) Bytes(n int) []byte {
	b := make([]byte, n)
	for i := range b {
		b[i] = byte(r.U64())
	}
	return b
}

// Pick returns a weighted index.
func (r *Rng) Pick(w []float64) int {
	t := 0.0
	for _, x := range w {
		t += x
	}
	if t <= 0 {
		return 0
	}
	f := r.F() * t
	for i, x := range w {
		if f < x {
			return i
		}
		f -= x
	}
	return len(w) - 1
}
