package main

// snap.go: decoded snapshots of the six custom stores plus the SDK state the oracles
// read. A snapshot is composed of per-store parts; a part is re-read only if the
// store's write listener fired since the previous observation.

import (
	"encoding/binary"
	"sort"

	didtypes "github.com/SaoNetwork/sao/x/did/types"
	markettypes "github.com/SaoNetwork/sao/x/market/types"
	modeltypes "github.com/SaoNetwork/sao/x/model/types"
	nodetypes "github.com/SaoNetwork/sao/x/node/types"
	ordertypes "github.com/SaoNetwork/sao/x/order/types"
	sdk "github.com/cosmos/cosmos-sdk/types"
	authtypes "github.com/cosmos/cosmos-sdk/x/auth/types"
	stakingtypes "github.com/cosmos/cosmos-sdk/x/staking/types"
)

type OrderPart struct {
	Orders     map[uint64]ordertypes.Order
	Shards     map[uint64]ordertypes.Shard
	OrderCount uint64
	ShardCount uint64
}

type ModelPart struct {
	Metas   map[string]modeltypes.Metadata
	Models  map[string]string // key -> data id
	Expired map[uint64][]string
}

type SaoPart struct {
	Timeouts map[uint64][]uint64
	Expired  map[uint64][]uint64
}

type NodePart struct {
	Nodes    map[string]nodetypes.Node
	Pledges  map[string]nodetypes.Pledge
	Debts    map[string]sdk.Coin
	Pool     nodetypes.Pool
	HasPool  bool
	Faults   map[string]nodetypes.Fault // by fault id
	FaultIdx map[string]string          // raw index key -> fault id
	Fishing  map[string]string
	Round    int               // -1 = unset
	RawOther map[string]string // any key outside known prefixes
}

type MarketPart struct {
	Workers map[string]markettypes.Worker
}

type DidPart struct {
	AccountLists map[string][]string
	AccountAuths map[string]didtypes.AccountAuth
	AccountIds   map[string]string // accountDid -> accountId
	Dids         map[string]string // accountId -> did
	Kids         map[string]string // address -> did:key
	PayAddrs     map[string]string // did -> address
	SidDocs      map[string]didtypes.SidDocument
	SidVersions  map[string][]string
	PastSeeds    map[string][]string
	Balances     map[string]sdk.Coin
}

type BankPart struct {
	Bal    map[string]sdk.Int // address -> amount of Denom
	Supply sdk.Int
}

type StakingPart struct {
	Vals map[string]stakingtypes.Validator  // operator address
	Dels map[string]stakingtypes.Delegation // delegator|validator
}

type Snap struct {
	H      int64
	Order  *OrderPart
	Model  *ModelPart
	Sao    *SaoPart
	Node   *NodePart
	Market *MarketPart
	Did    *DidPart
	Bank   *BankPart
	Stk    *StakingPart
}

var moduleAccounts = []string{"order", "market", "node", "did", "bonded_tokens_pool", "not_bonded_tokens_pool", "distribution", "fee_collector", "mint", "gov"}

var modAddrCache = map[string]string{}

func modAddr(name string) string {
	if a, ok := modAddrCache[name]; ok {
		return a
	}
	initEncoding()
	a := authtypes.NewModuleAddress(name).String()
	modAddrCache[name] = a
	return a
}

// TakeSnap reads the parts whose store is dirty (or all if prev is nil).
func (r *Replica) TakeSnap(ctx sdk.Context, w *World, prev *Snap, extraAddrs []string) *Snap {
	a := r.App
	s := &Snap{H: ctx.BlockHeight()}
	all := prev == nil
	if !all {
		*s = *prev
		s.H = ctx.BlockHeight()
	}
	changed := func(n string) bool {
		if all {
			r.lastHash[n] = r.rawHash(ctx, n)
			return true
		}
		if !r.Dirty[n] {
			return false
		}
		h := r.rawHash(ctx, n)
		if h == r.lastHash[n] {
			return false
		}
		r.lastHash[n] = h
		return true
	}
	if changed("order") {
		p := &OrderPart{Orders: map[uint64]ordertypes.Order{}, Shards: map[uint64]ordertypes.Shard{}}
		for _, o := range a.OrderKeeper.GetAllOrder(ctx) {
			p.Orders[o.Id] = o
		}
		for _, sh := range a.OrderKeeper.GetAllShard(ctx) {
			p.Shards[sh.Id] = sh
		}
		p.OrderCount = a.OrderKeeper.GetOrderCount(ctx)
		p.ShardCount = a.OrderKeeper.GetShardCount(ctx)
		s.Order = p
	}
	if changed("model") {
		p := &ModelPart{Metas: map[string]modeltypes.Metadata{}, Models: map[string]string{}, Expired: map[uint64][]string{}}
		for _, m := range a.ModelKeeper.GetAllMetadata(ctx) {
			p.Metas[m.DataId] = m
		}
		for _, m := range a.ModelKeeper.GetAllModel(ctx) {
			p.Models[m.Key] = m.Data
		}
		for _, e := range a.ModelKeeper.GetAllExpiredData(ctx) {
			p.Expired[e.Height] = e.Data
		}
		s.Model = p
	}
	if changed("sao") {
		p := &SaoPart{Timeouts: map[uint64][]uint64{}, Expired: map[uint64][]uint64{}}
		for _, t := range a.SaoKeeper.GetAllTimeoutOrder(ctx) {
			p.Timeouts[t.Height] = t.OrderList
		}
		for _, e := range a.SaoKeeper.GetAllExpiredShard(ctx) {
			p.Expired[e.Height] = e.ShardList
		}
		s.Sao = p
	}
	if changed("node") {
		p := &NodePart{Nodes: map[string]nodetypes.Node{}, Pledges: map[string]nodetypes.Pledge{}, Debts: map[string]sdk.Coin{},
			Faults: map[string]nodetypes.Fault{}, FaultIdx: map[string]string{}, Fishing: map[string]string{}, Round: -1, RawOther: map[string]string{}}
		for _, n := range a.NodeKeeper.GetAllNode(ctx) {
			p.Nodes[n.Creator] = n
		}
		for _, pl := range a.NodeKeeper.GetAllPledge(ctx) {
			p.Pledges[pl.Creator] = pl
		}
		for _, d := range a.NodeKeeper.GetAllPledgeDebt(ctx) {
			p.Debts[d.Sp] = d.Debt
		}
		p.Pool, p.HasPool = a.NodeKeeper.GetPool(ctx)
		st := ctx.KVStore(a.GetKey("node"))
		it := st.Iterator(nil, nil)
		for ; it.Valid(); it.Next() {
			k := string(it.Key())
			switch {
			case hasPrefix(k, nodetypes.FaultIdKeyPrefix):
				var f nodetypes.Fault
				if err := a.AppCodec().Unmarshal(it.Value(), &f); err == nil {
					p.Faults[k[len(nodetypes.FaultIdKeyPrefix):]] = f
				} else {
					p.RawOther[k] = string(it.Value())
				}
			case hasPrefix(k, nodetypes.FaultKeyPrefix):
				p.FaultIdx[k[len(nodetypes.FaultKeyPrefix):]] = string(it.Value())
			case hasPrefix(k, nodetypes.FishingRewardKey):
				p.Fishing[k[len(nodetypes.FishingRewardKey):]] = string(it.Value())
			case hasPrefix(k, nodetypes.NodeRoundKeyPrefix):
				if len(it.Value()) > 0 {
					p.Round = int(it.Value()[0])
				}
			case hasPrefix(k, nodetypes.NodeKeyPrefix), hasPrefix(k, nodetypes.PledgeKeyPrefix), hasPrefix(k, nodetypes.PledgeDebtKeyPrefix), hasPrefix(k, nodetypes.PoolKey):
			default:
				p.RawOther[k] = string(it.Value())
			}
		}
		it.Close()
		s.Node = p
	}
	if changed("market") {
		p := &MarketPart{Workers: map[string]markettypes.Worker{}}
		for _, wk := range a.MarketKeeper.GetAllWorker(ctx) {
			p.Workers[wk.Workername] = wk
		}
		s.Market = p
	}
	if changed("did") {
		p := &DidPart{AccountLists: map[string][]string{}, AccountAuths: map[string]didtypes.AccountAuth{}, AccountIds: map[string]string{},
			Dids: map[string]string{}, Kids: map[string]string{}, PayAddrs: map[string]string{}, SidDocs: map[string]didtypes.SidDocument{},
			SidVersions: map[string][]string{}, PastSeeds: map[string][]string{}, Balances: map[string]sdk.Coin{}}
		for _, x := range a.DidKeeper.GetAllAccountList(ctx) {
			p.AccountLists[x.Did] = x.AccountDids
		}
		for _, x := range a.DidKeeper.GetAllAccountAuth(ctx) {
			p.AccountAuths[x.AccountDid] = x
		}
		for _, x := range a.DidKeeper.GetAllAccountId(ctx) {
			p.AccountIds[x.AccountDid] = x.AccountId
		}
		for _, x := range a.DidKeeper.GetAllDid(ctx) {
			p.Dids[x.AccountId] = x.Did
		}
		for _, x := range a.DidKeeper.GetAllKid(ctx) {
			p.Kids[x.Address] = x.Kid
		}
		for _, x := range a.DidKeeper.GetAllPaymentAddress(ctx) {
			p.PayAddrs[x.Did] = x.Address
		}
		for _, x := range a.DidKeeper.GetAllSidDocument(ctx) {
			p.SidDocs[x.VersionId] = x
		}
		for _, x := range a.DidKeeper.GetAllSidDocumentVersion(ctx) {
			p.SidVersions[x.DocId] = x.VersionList
		}
		for _, x := range a.DidKeeper.GetAllPastSeeds(ctx) {
			p.PastSeeds[x.Did] = x.Seeds
		}
		for _, x := range a.DidKeeper.GetAllDidBalances(ctx) {
			p.Balances[x.Did] = x.Balance
		}
		s.Did = p
	}
	if changed("bank") {
		p := &BankPart{Bal: map[string]sdk.Int{}}
		for _, ac := range w.Actors {
			p.Bal[ac.AddrS] = a.BankKeeper.GetBalance(ctx, ac.Addr, Denom).Amount
		}
		for _, m := range moduleAccounts {
			ad := authtypes.NewModuleAddress(m)
			p.Bal[modAddr(m)] = a.BankKeeper.GetBalance(ctx, ad, Denom).Amount
		}
		for _, x := range extraAddrs {
			ad, err := sdk.AccAddressFromBech32(x)
			if err == nil {
				p.Bal[x] = a.BankKeeper.GetBalance(ctx, ad, Denom).Amount
			}
		}
		p.Supply = a.BankKeeper.GetSupply(ctx, Denom).Amount
		s.Bank = p
	}
	if changed("staking") {
		p := &StakingPart{Vals: map[string]stakingtypes.Validator{}, Dels: map[string]stakingtypes.Delegation{}}
		for _, v := range a.StakingKeeper.GetAllValidators(ctx) {
			p.Vals[v.OperatorAddress] = v
		}
		for _, d := range a.StakingKeeper.GetAllDelegations(ctx) {
			p.Dels[d.DelegatorAddress+"|"+d.ValidatorAddress] = d
		}
		s.Stk = p
	}
	return s
}

// rawHash fingerprints the raw content of a store (FNV-1a over keys and values).
func (r *Replica) rawHash(ctx sdk.Context, n string) uint64 {
	h := uint64(14695981039346656037)
	it := ctx.KVStore(r.App.GetKey(n)).Iterator(nil, nil)
	for ; it.Valid(); it.Next() {
		for _, b := range it.Key() {
			h ^= uint64(b)
			h *= 1099511628211
		}
		h ^= 0xff
		h *= 1099511628211
		for _, b := range it.Value() {
			h ^= uint64(b)
			h *= 1099511628211
		}
		h ^= 0xfe
		h *= 1099511628211
	}
	it.Close()
	return h
}

func hasPrefix(s, p string) bool { return len(s) >= len(p) && s[:len(p)] == p }

// RawDump returns the raw KV content of the named stores (for C18 and digests).
func (r *Replica) RawDump(ctx sdk.Context, stores []string) map[string]map[string]string {
	out := map[string]map[string]string{}
	for _, n := range stores {
		m := map[string]string{}
		it := ctx.KVStore(r.App.GetKey(n)).Iterator(nil, nil)
		for ; it.Valid(); it.Next() {
			m[string(it.Key())] = string(it.Value())
		}
		it.Close()
		out[n] = m
	}
	return out
}

var customStores = []string{"sao", "node", "order", "model", "did", "market"}

func sortedU64(m map[uint64]bool) []uint64 {
	o := make([]uint64, 0, len(m))
	for k := range m {
		o = append(o, k)
	}
	sort.Slice(o, func(i, j int) bool { return o[i] < o[j] })
	return o
}

func orderIDs(p *OrderPart) []uint64 {
	o := make([]uint64, 0, len(p.Orders))
	for k := range p.Orders {
		o = append(o, k)
	}
	sort.Slice(o, func(i, j int) bool { return o[i] < o[j] })
	return o
}

func shardIDs(p *OrderPart) []uint64 {
	o := make([]uint64, 0, len(p.Shards))
	for k := range p.Shards {
		o = append(o, k)
	}
	sort.Slice(o, func(i, j int) bool { return o[i] < o[j] })
	return o
}

func sortedKeys[V any](m map[string]V) []string {
	o := make([]string, 0, len(m))
	for k := range m {
		o = append(o, k)
	}
	sort.Strings(o)
	return o
}

func u64key(b []byte) uint64 {
	if len(b) < 8 {
		return 0
	}
	return binary.BigEndian.Uint64(b)
}
