package main

// oracle_auth.go: C09 data-model authorization, C10 actor authorization, C19 fault reports.
// Effect -> required authority, judged on per-transaction diffs with the harness' ground
// truth about who really signed what.

import (
	"fmt"
	"strings"

	modeltypes "github.com/SaoNetwork/sao/x/model/types"
	nodetypes "github.com/SaoNetwork/sao/x/node/types"
	ordertypes "github.com/SaoNetwork/sao/x/order/types"
	saotypes "github.com/SaoNetwork/sao/x/sao/types"
)

type authOracle struct {
	taint map[string]bool
}

func newAuthOracle() *authOracle   { return &authOracle{taint: map[string]bool{}} }
func (o *authOracle) Name() string { return "auth" }
func (o *authOracle) End(e *Env)   {}

func (o *authOracle) once(e *Env, prop, sub, step, detail, obj, msg string) {
	key := sub + "|" + detail + "|" + obj
	if o.taint[key] {
		return
	}
	o.taint[key] = true
	e.Violate(prop, sub, step, detail, msg)
}

func metaProtectedDiff(a, b modeltypes.Metadata) string {
	switch {
	case a.Owner != b.Owner:
		return "owner"
	case a.Commit != b.Commit:
		return "commit"
	case fmt.Sprint(a.Commits) != fmt.Sprint(b.Commits):
		return "commits"
	case a.Cid != b.Cid:
		return "cid"
	case fmt.Sprint(a.ReadonlyDids) != fmt.Sprint(b.ReadonlyDids) || fmt.Sprint(a.ReadwriteDids) != fmt.Sprint(b.ReadwriteDids):
		return "permissions"
	case a.Duration != b.Duration || a.CreatedAt != b.CreatedAt:
		return "lifetime"
	case a.Status != b.Status:
		return "status"
	case a.OrderId != b.OrderId || fmt.Sprint(a.Orders) != fmt.Sprint(b.Orders):
		return "order-link"
	}
	return ""
}

func inList(xs []string, x string) bool {
	for _, y := range xs {
		if x == y {
			return true
		}
	}
	return false
}

func (o *authOracle) Step(e *Env, si *StepInfo) {
	if si.Kind == "end" {
		o.c09end(e, si)
	}
	if si.Kind != "tx" || !si.OK || si.Op == nil {
		return
	}
	o.c09(e, si)
	o.c10(e, si)
	o.c19(e, si)
}

// c09end: outside transactions a data model changes only at the scheduled end of its own lifetime
// or by the rollback of its own in-flight order that the timeout scan has just given up.
func (o *authOracle) c09end(e *Env, si *StepInfo) {
	prev, cur := si.Prev, si.Cur
	if prev.Model == cur.Model {
		return
	}
	for _, id := range sortedKeys(prev.Model.Metas) {
		pm := prev.Model.Metas[id]
		cm, has := cur.Model.Metas[id]
		what := ""
		if !has {
			what = "existence(removed)"
		} else {
			what = metaProtectedDiff(pm, cm)
		}
		if what == "" {
			continue
		}
		if !has && pm.CreatedAt+pm.Duration == uint64(si.Height) {
			continue // scheduled end of life
		}
		if _, had := prev.Order.Orders[pm.OrderId]; had {
			if _, still := cur.Order.Orders[pm.OrderId]; !still {
				continue // its own in-flight (or last) order ended in this block: rollback / expiry
			}
		}
		o.once(e, "C09", "C09.endblock", "end", "model-changed-without-authority:"+what, id+what,
			fmt.Sprintf("data model %s: %s changed by the end-blocker of height %d although neither its lifetime ended (created %d + duration %d) nor its own current order %d ended in this block", id, what, si.Height, pm.CreatedAt, pm.Duration, pm.OrderId))
	}
}

func (o *authOracle) c09(e *Env, si *StepInfo) {
	prev, cur := si.Prev, si.Cur
	// an accepted permission request of the owner takes effect as signed: the model carries exactly
	// the two lists of the request afterwards (a revocation that is accepted but not applied leaves
	// the revoked DID able to change the model)
	if si.Op.K == "perm" && si.Built != nil && si.Built.Auth != nil && si.Built.Auth.Intact {
		if mp, ok := si.Built.Msgs[0].(*saotypes.MsgUpdataPermission); ok {
			if pm, had := prev.Model.Metas[mp.Proposal.DataId]; had && pm.Owner == si.Built.Auth.SignerDid {
				if cm, has := cur.Model.Metas[mp.Proposal.DataId]; has {
					if fmt.Sprint(cm.ReadonlyDids) != fmt.Sprint(mp.Proposal.ReadonlyDids) || fmt.Sprint(cm.ReadwriteDids) != fmt.Sprint(mp.Proposal.ReadwriteDids) {
						o.once(e, "C09", "C09.perm", stepLabel(si), "permission-request-not-applied-as-signed", mp.Proposal.DataId, fmt.Sprintf("data model %s: the owner's accepted permission request names read-only %d / read-write %d DIDs, the model now lists %d / %d", mp.Proposal.DataId, len(mp.Proposal.ReadonlyDids), len(mp.Proposal.ReadwriteDids), len(cm.ReadonlyDids), len(cm.ReadwriteDids)))
					}
				}
			}
		}
	}
	if prev.Model == cur.Model {
		return
	}
	t := e.T
	lab := stepLabel(si)
	ids := map[string]bool{}
	for k := range prev.Model.Metas {
		ids[k] = true
	}
	for k := range cur.Model.Metas {
		ids[k] = true
	}
	for _, id := range sortedKeys(ids) {
		pm, had := prev.Model.Metas[id]
		cm, has := cur.Model.Metas[id]
		what := ""
		switch {
		case had && !has:
			what = "existence(removed)"
		case !had && has:
			what = "existence(created)"
		default:
			what = metaProtectedDiff(pm, cm)
		}
		if what == "" {
			continue
		}
		au := si.Built.Auth
		ok := false
		why := ""
		switch si.Op.K {
		case "store", "terminate", "renew", "perm":
			if au == nil || !au.Intact {
				why = "request was altered after signing or carries no valid signature"
				break
			}
			if !inList(au.DataIds, id) {
				why = "signed request does not name this data id"
				break
			}
			if !had {
				// creation: signer becomes owner
				ok = cm.Owner == au.SignerDid
				why = "created model is owned by someone other than the signer"
				break
			}
			if au.SignerDid == pm.Owner {
				ok = true
				break
			}
			if (si.Op.K == "store" || si.Op.K == "terminate") && inList(pm.ReadwriteDids, au.SignerDid) {
				ok = true
				break
			}
			why = fmt.Sprintf("signer %s is neither the owner nor (for update/terminate) a read-write grantee", short(strings.TrimPrefix(au.SignerDid, "did:key:")))
		case "complete":
			// consequence of an earlier authorized request: the order being completed
			for oid, oi := range t.Orders {
				if oi.DataId == id && oi.Authorized {
					if _, live := prev.Order.Orders[oid]; live {
						ok = true
					}
				}
			}
			why = "completion of an order that no authorized request created"
			// ... and whose signer still has the right at the moment the version is written: an owner's
			// revocation takes effect for an update that is still in flight
			if mc, isC := si.Built.Msgs[0].(*saotypes.MsgComplete); ok && isC && had && what != "lifetime" {
				if oi := t.Orders[mc.OrderId]; oi != nil && oi.DataId == id && oi.SignerDid != "" && oi.Op != 3 {
					if oi.SignerDid != pm.Owner && !inList(pm.ReadwriteDids, oi.SignerDid) {
						ok = false
						why = fmt.Sprintf("order %d was signed by %s, whose read-write access the owner has revoked before the version was written", mc.OrderId, short(strings.TrimPrefix(oi.SignerDid, "did:key:")))
					}
				}
			}
		case "cancel":
			// automatic rollback of a cancelled update (who may cancel is C10's question)
			ok = what == "status" || what == "commit" || what == "order-link" || what == "lifetime" || what == "existence(removed)" || what == "cid"
			why = "cancel changed more than the in-flight fields"
			if mc, isC := si.Built.Msgs[0].(*saotypes.MsgCancel); ok && isC && had && pm.OrderId != mc.OrderId {
				ok = false
				why = fmt.Sprintf("the cancelled order %d is not the model's in-flight order (%d): the rollback hit a model the order does not belong to", mc.OrderId, pm.OrderId)
			}
		default:
			why = "this message type must not change a data model"
		}
		if !ok {
			o.once(e, "C09", "C09."+si.Op.K, lab, "model-changed-without-authority:"+what, id+what,
				fmt.Sprintf("data model %s: %s changed by %s (tx signer %s, note %q): %s", id, what, si.Op.K, si.Built.Signer.Name, si.Op.Note, why))
		}
	}
}

func nodeTxAddrs(s *Snap, node string) []string {
	if n, ok := s.Node.Nodes[node]; ok {
		return n.TxAddresses
	}
	return nil
}

func (o *authOracle) c10(e *Env, si *StepInfo) {
	prev, cur := si.Prev, si.Cur
	lab := stepLabel(si)
	signer := si.Built.Signer.AddrS
	// complete: shard -> completed requires the assigned provider or an address it registered
	if prev.Order != cur.Order {
		for _, sid := range shardIDs(cur.Order) {
			cs := cur.Order.Shards[sid]
			ps, had := prev.Order.Shards[sid]
			if cs.Status == ordertypes.ShardCompleted && had && ps.Status != ordertypes.ShardCompleted {
				if signer != ps.Sp && !inList(nodeTxAddrs(prev, ps.Sp), signer) {
					o.once(e, "C10", "C10.complete", lab, "shard-completed-by-non-provider", fmt.Sprint(sid), fmt.Sprintf("shard %d assigned to %s was reported stored by %s, who is neither that provider nor in its registered list", sid, fmtAddr(ps.Sp), si.Built.Signer.Name))
				}
			}
		}
	}
	// ready: a pending order is handed to providers only by the gateway it names (or that gateway's own addresses)
	if si.Op.K == "ready" && prev.Order != cur.Order {
		for _, id := range orderIDs(cur.Order) {
			po, had := prev.Order.Orders[id]
			co := cur.Order.Orders[id]
			if had && po.Status == ordertypes.OrderPending && co.Status != ordertypes.OrderPending {
				if signer != po.Provider && !inList(nodeTxAddrs(prev, po.Provider), signer) {
					o.once(e, "C10", "C10.ready", lab, "order-handed-out-by-non-gateway", fmt.Sprint(id), fmt.Sprintf("pending order %d naming gateway %s was handed to providers by %s, who is neither that gateway nor in its registered list", id, fmtAddr(po.Provider), si.Built.Signer.Name))
				}
			}
		}
	}
	// node: registration / capacity / reward payout only by the node's own account
	isNodeOp := strings.HasPrefix(si.Op.K, "node_") || si.Op.K == "add_vstorage" || si.Op.K == "remove_vstorage" || si.Op.K == "claim"
	if isNodeOp {
		for _, k := range sortedKeys(cur.Node.Nodes) {
			if k == signer {
				continue
			}
			pn, had := prev.Node.Nodes[k]
			cn := cur.Node.Nodes[k]
			if !had || pn.Peer != cn.Peer || pn.Status != cn.Status || fmt.Sprint(pn.TxAddresses) != fmt.Sprint(cn.TxAddresses) || pn.Validator != cn.Validator {
				o.once(e, "C10", "C10.node", lab, "node-record-changed-by-other", k, fmt.Sprintf("%s by %s changed the registration of node %s", si.Op.K, si.Built.Signer.Name, fmtAddr(k)))
			}
		}
		for _, k := range sortedKeys(cur.Node.Pledges) {
			if k == signer {
				continue
			}
			pp, had := prev.Node.Pledges[k]
			cp := cur.Node.Pledges[k]
			if !had || pp.TotalStorage != cp.TotalStorage || !pp.TotalStoragePledged.IsEqual(cp.TotalStoragePledged) {
				o.once(e, "C10", "C10.node", lab, "pledge-changed-by-other", k, fmt.Sprintf("%s by %s changed the capacity pledge of %s", si.Op.K, si.Built.Signer.Name, fmtAddr(k)))
			}
		}
		for _, ed := range si.Edges {
			if ed.From == modAddr("market") && ed.To == modAddr("node") && debtOf(prev, signer).Sub(debtOf(cur, signer)).GTE(ed.Amt) {
				continue // income repaying the claimer's own collateral debt
			}
			if (ed.From == modAddr("node") || ed.From == modAddr("market")) && ed.To != signer && !ed.Amt.IsZero() {
				o.once(e, "C10", "C10.node", lab, "payout-to-other", ed.To, fmt.Sprintf("%s by %s paid %s to %s", si.Op.K, si.Built.Signer.Name, ed.Amt, fmtAddr(ed.To)))
			}
		}
	}
	// cancel: only the creator, or the gateway the creator demonstrably belongs to
	if si.Op.K == "cancel" && prev.Order != cur.Order {
		for _, id := range orderIDs(prev.Order) {
			if _, still := cur.Order.Orders[id]; still {
				continue
			}
			po := prev.Order.Orders[id]
			ok := signer == po.Creator
			if !ok {
				gwList := nodeTxAddrs(prev, po.Provider)
				belongs := po.Creator == po.Provider || inList(gwList, po.Creator)
				acts := signer == po.Provider || inList(gwList, signer)
				ok = belongs && acts
			}
			if !ok {
				o.once(e, "C10", "C10.cancel", lab, "order-cancelled-by-third-party", fmt.Sprint(id), fmt.Sprintf("order %d created by %s via gateway %s was cancelled by %s (note %q), who is neither the creator nor acting for that gateway", id, fmtAddr(po.Creator), fmtAddr(po.Provider), si.Built.Signer.Name, si.Op.Note))
			}
		}
	}
	// payer: who may cause a charge
	if si.Op.K == "store" && prev.Order != cur.Order {
		st, _ := si.Built.Msgs[0].(*saotypes.MsgStore)
		for _, id := range orderIDs(cur.Order) {
			if _, had := prev.Order.Orders[id]; had || st == nil {
				continue
			}
			co := cur.Order.Orders[id]
			if co.PaymentDid != "" {
				if signer != payAddrOf(prev, co.PaymentDid) {
					o.once(e, "C10", "C10.payer", lab, "sponsor-charged-without-submitting", fmt.Sprint(id), fmt.Sprintf("order %d charged sponsor %s but was submitted by %s", id, co.PaymentDid, si.Built.Signer.Name))
				}
				continue
			}
			gw := st.Proposal.Provider
			ok := signer == gw || inList(nodeTxAddrs(prev, gw), signer)
			if !ok {
				// an account bound to the owner DID: bound according to the binding record and still in
				// the DID's own account list (an unbound account is in neither)
				acc := "cosmos:" + ChainID + ":" + signer
				if prev.Did.Dids[acc] == co.Owner {
					if strings.HasPrefix(co.Owner, "did:sid:") {
						for _, ad := range prev.Did.AccountLists[co.Owner] {
							if prev.Did.AccountIds[ad] == acc {
								ok = true
							}
						}
					} else {
						ok = true
					}
				}
			}
			if !ok {
				o.once(e, "C10", "C10.payer", lab, "owner-charged-via-unnamed-relayer", fmt.Sprint(id), fmt.Sprintf("order %d charged the owner's payment address but was submitted by %s, who is neither the gateway named in the signed request (%s) nor bound to the owner", id, si.Built.Signer.Name, fmtAddr(gw)))
			}
		}
	}
	if si.Op.K == "renew" && prev.Order != cur.Order {
		// renewal is charged to the owner who signed it; nobody else may be debited
		for _, id := range orderIDs(cur.Order) {
			if _, had := prev.Order.Orders[id]; had {
				continue
			}
			co := cur.Order.Orders[id]
			au := si.Built.Auth
			if au != nil && co.Owner != au.SignerDid {
				o.once(e, "C10", "C10.payer", lab, "renewal-charged-to-non-signer", fmt.Sprint(id), fmt.Sprintf("renewal order %d is owned/paid by %s but the request was signed by %s", id, co.Owner, au.SignerDid))
			}
		}
	}
}

func (o *authOracle) c19(e *Env, si *StepInfo) {
	prev, cur := si.Prev, si.Cur
	lab := stepLabel(si)
	signer := si.Built.Signer.AddrS
	isFaultTx := si.Op.K == "report" || si.Op.K == "recover"
	faultsChanged := false
	if prev.Node != cur.Node {
		if len(prev.Node.Faults) != len(cur.Node.Faults) || len(prev.Node.FaultIdx) != len(cur.Node.FaultIdx) {
			faultsChanged = true
		}
		for k, f := range cur.Node.Faults {
			if pf, ok := prev.Node.Faults[k]; !ok || pf != f {
				faultsChanged = true
			}
		}
	}
	if faultsChanged {
		e.probe("fault_record_changed")
		_, isNode := prev.Node.Nodes[signer]
		fish := false
		for _, f := range e.W.Fishmen {
			if f.AddrS == signer {
				fish = true
			}
		}
		if !isFaultTx {
			o.once(e, "C19", "C19.who", lab, "fault-records-changed-by-other-message", si.Op.K, fmt.Sprintf("fault records changed by a %s transaction", si.Op.K))
		}
		for k, f := range cur.Node.Faults {
			pf, had := prev.Node.Faults[k]
			if had && pf == f {
				continue
			}
			selfRecover := si.Op.K == "recover" && f.Provider == signer && had
			if !(isNode && fish) && !selfRecover {
				o.once(e, "C19", "C19.who", lab, "fault-changed-by-non-fishman", k, fmt.Sprintf("fault %s against %s changed by %s (registered node: %v, fishman: %v)", short(k), fmtAddr(f.Provider), si.Built.Signer.Name, isNode, fish))
			}
			if !had {
				// valid: names an existing, unexpired shard the accused holds for that order and model
				sh, ok := prev.Order.Shards[f.ShardId]
				ord, ok2 := prev.Order.Orders[f.OrderId]
				listed := false
				if ok2 {
					for _, x := range ord.Shards {
						if x == f.ShardId {
							listed = true
						}
					}
				}
				_, ok3 := prev.Model.Metas[f.DataId]
				holds := ok && (sh.Status == ordertypes.ShardCompleted || sh.Status == ordertypes.ShardMigrating)
				// ... for the named order: the order the shard currently serves, or a renewal queued on it
				if holds && sh.OrderId != f.OrderId {
					queued := false
					for _, ri := range sh.RenewInfos {
						if ri.OrderId == f.OrderId {
							queued = true
						}
					}
					holds = queued
				}
				if !ok || !ok2 || !ok3 || !listed || !holds || sh.Sp != f.Provider || ord.DataId != f.DataId || int64(sh.CreatedAt+sh.Duration) <= si.Height {
					o.once(e, "C19", "C19.valid", lab, "fault-recorded-for-invalid-target", k, fmt.Sprintf("fault recorded against %s for order %d data %s shard %d: shard exists %v, order exists %v, model exists %v, order lists shard %v, provider holds it (stored) %v", fmtAddr(f.Provider), f.OrderId, f.DataId, f.ShardId, ok, ok2, ok3, listed, holds))
				}
			}
		}
		for k, pf := range prev.Node.Faults {
			if _, still := cur.Node.Faults[k]; !still {
				if !(isNode && fish) && !(pf.Provider == signer) {
					o.once(e, "C19", "C19.who", lab, "fault-cleared-by-non-fishman", k, fmt.Sprintf("fault %s cleared by %s", short(k), si.Built.Signer.Name))
				}
			}
		}
	}
	if isFaultTx {
		// scope: no balance, order, shard or other provider's pledge changes
		for _, a := range sortedKeys(cur.Bank.Bal) {
			if !cur.Bank.Bal[a].Equal(prev.Bank.Bal[a]) {
				o.once(e, "C19", "C19.scope", lab, "balance-changed-by-fault-tx", a, fmt.Sprintf("%s changed the balance of %s", si.Op.K, fmtAddr(a)))
			}
		}
		if prev.Order != cur.Order {
			o.once(e, "C19", "C19.scope", lab, "orders-or-shards-changed-by-fault-tx", "", fmt.Sprintf("%s wrote to the order store", si.Op.K))
		}
		if prev.Node != cur.Node {
			acc := ""
			if a := e.ref(si.Op.Acc, nil); a != nil {
				acc = a.AddrS
			}
			for _, k := range sortedKeys(cur.Node.Pledges) {
				pp, had := prev.Node.Pledges[k]
				cp := cur.Node.Pledges[k]
				if had && pp.String() == cp.String() {
					continue
				}
				if k != acc {
					o.once(e, "C19", "C19.scope", lab, "other-pledge-changed-by-fault-tx", k, fmt.Sprintf("%s about %s changed the pledge of %s", si.Op.K, fmtAddr(acc), fmtAddr(k)))
					continue
				}
				// penalty only reduces the accused's own reward/collateral, never below zero
				if cp.Reward.Amount.IsNegative() || cp.TotalStoragePledged.Amount.IsNegative() || cp.Reward.Amount.GT(pp.Reward.Amount) || cp.TotalStoragePledged.Amount.GT(pp.TotalStoragePledged.Amount) || cp.TotalStorage != pp.TotalStorage {
					o.once(e, "C19", "C19.penalty", lab, "penalty-out-of-bounds", k, fmt.Sprintf("penalty on %s: reward %s->%s, collateral %s->%s", fmtAddr(k), pp.Reward.Amount, cp.Reward.Amount, pp.TotalStoragePledged.Amount, cp.TotalStoragePledged.Amount))
				}
			}
			// (node registration records are not in the property's list of things a fault transaction
			// must leave alone; a status change of a node is not judged here)
		}
	}
}

var _ = nodetypes.ModuleName
