package main

// ops.go: symbolic operations of the materialised trace and their resolution into
// signed transactions against the chain state at execution time.

import (
	govv1beta1 "github.com/cosmos/cosmos-sdk/x/gov/types/v1beta1"
	paramproposal "github.com/cosmos/cosmos-sdk/x/params/types/proposal"
	"crypto/sha256"
	"fmt"
	"strings"

	didtypes "github.com/SaoNetwork/sao/x/did/types"
	nodetypes "github.com/SaoNetwork/sao/x/node/types"
	ordertypes "github.com/SaoNetwork/sao/x/order/types"
	saotypes "github.com/SaoNetwork/sao/x/sao/types"
	sdk "github.com/cosmos/cosmos-sdk/types"
	banktypes "github.com/cosmos/cosmos-sdk/x/bank/types"
	slashingtypes "github.com/cosmos/cosmos-sdk/x/slashing/types"
	stakingtypes "github.com/cosmos/cosmos-sdk/x/staking/types"
	"github.com/dvsekhvalnov/jose2go/base64url"
	"github.com/ipfs/go-cid"
	mh "github.com/multiformats/go-multihash"
)

// Op is one symbolic operation. Actor references are indices into World.Actors.
// Object references go through the data index D so that they survive shrinking.
type Op struct {
	K    string `json:"k"`
	A    int    `json:"a"`              // tx signer
	Prov int    `json:"prov,omitempty"` // msg.Provider actor (+1; 0 = same as signer)
	PP   int    `json:"pp,omitempty"`   // proposal.Provider actor (+1; 0 = same as msg.Provider)
	Own  int    `json:"own,omitempty"`  // JWS signer actor (+1; 0 = data owner)
	D    int    `json:"d,omitempty"`    // data index
	Ds   []int  `json:"ds,omitempty"`   // data indices (renew, migrate)
	Mode string `json:"mode,omitempty"` // store: new|update|force
	G    int    `json:"g,omitempty"`    // tight gas: limit = estimated gas use minus G
	Cm   string `json:"cm,omitempty"`   // report: explicit commit id of the fault
	Base string `json:"base,omitempty"` // store: latest|stale|empty|embed|prefix|short|sep
	Rep  int32  `json:"rep,omitempty"`
	Dur  uint64 `json:"dur,omitempty"`
	Tmo  int32  `json:"tmo,omitempty"`
	Size uint64 `json:"size,omitempty"`
	Pay  int    `json:"pay,omitempty"` // sponsor actor (+1)
	Tam  string `json:"tam,omitempty"` // tamper: payload|sig|ownerfield
	// selectors / numbers
	W    int    `json:"w,omitempty"`    // which order of the data: 0 = meta.OrderId, k = Orders[len-k]
	N    int64  `json:"n,omitempty"`    // amount / size / status
	V    int    `json:"v,omitempty"`    // validator actor (+1)
	V2   int    `json:"v2,omitempty"`   // second validator (+1)
	To   int    `json:"to,omitempty"`   // recipient actor (+1)
	L    []int  `json:"l,omitempty"`    // actor list (tx addresses, ro dids)
	L2   []int  `json:"l2,omitempty"`   // actor list (rw dids)
	Acc  int    `json:"acc,omitempty"`  // accused SP (+1)
	Mis  string `json:"mis,omitempty"`  // fault report mismatch kind
	Dup  int    `json:"dup,omitempty"`  // deliver the same tx bytes again this many times
	Sid  bool   `json:"sid,omitempty"`  // the JWS signer acts as a sid DID (key document of actor Own) instead of its did:key
	Slot int    `json:"slot,omitempty"` // complete/migrate: act as the holder of the Slot-th open (resp. completed) shard of the data
	Note string `json:"note,omitempty"`
}

// DataInfo is harness ground truth about one data id of the universe.
type DataInfo struct {
	Idx     int
	DataId  string
	NextVer int
}

func uuidLike(seed string) string {
	h := sha256.Sum256([]byte(seed))
	x := fmt.Sprintf("%x", h[:16])
	return x[0:8] + "-" + x[8:12] + "-" + x[12:16] + "-" + x[16:20] + "-" + x[20:32]
}

func makeCid(seed string) string {
	sum, _ := mh.Sum([]byte(seed), mh.SHA2_256, -1)
	return cid.NewCidV1(cid.Raw, sum).String()
}

func (e *Env) data(d int) *DataInfo {
	for len(e.Data) <= d {
		i := len(e.Data)
		e.Data = append(e.Data, &DataInfo{Idx: i, DataId: uuidLike(fmt.Sprintf("data-%d-%d", e.W.Cfg.Seed, i))})
	}
	return e.Data[d]
}

// ownerOf returns the actor owning data d according to the chain's metadata.
func (e *Env) ownerOf(d *DataInfo) *Actor {
	if m, ok := e.Cur.Model.Metas[d.DataId]; ok {
		return e.actorOfDid(m.Owner)
	}
	return nil
}

func (e *Env) commitId(d, ver int) string {
	return uuidLike(fmt.Sprintf("commit-%d-%d-%d", e.W.Cfg.Seed, d, ver))
}

func (e *Env) actor(i int) *Actor {
	if i < 0 || i >= len(e.W.Actors) {
		return nil
	}
	return e.W.Actors[i]
}

func (e *Env) ref(plus1 int, def *Actor) *Actor {
	if plus1 <= 0 {
		return def
	}
	return e.actor(plus1 - 1)
}

// AuthTruth is what the harness knows about the signed artefact inside a tx.
type AuthTruth struct {
	SignerDid string // DID whose key really produced the JWS ("" if none)
	Intact    bool   // signed bytes == submitted proposal bytes
	DataIds   []string
	Kind      string
}

// Built is a resolved op.
type Built struct {
	Msgs   []sdk.Msg
	Signer *Actor
	Auth   *AuthTruth
	Proof  *ProofTruth
	Info   string
}

type marshaler interface{ Marshal() ([]byte, error) }

func (e *Env) jws(signer *Actor, p marshaler, tam string, alt marshaler) saotypes.JwsSignature {
	return e.jwsAs(signer, "", p, tam, alt)
}

// signerDid returns the DID string the actor signs as (its did:key, or the sid it created).
func (e *Env) signerDid(a *Actor, sid bool) string {
	if sid {
		if d := e.sidCreatedBy(a); d != "" {
			return d
		}
	}
	return a.Did
}

// signAs decides which DID string the signer uses for a request on a model owned by metaOwner.
func (e *Env) signAs(signer *Actor, metaOwner string, opSid bool) (string, string) {
	if strings.HasPrefix(metaOwner, "did:sid:") && e.actorOfDid(metaOwner) == signer {
		return metaOwner, metaOwner
	}
	d := e.signerDid(signer, opSid)
	if strings.HasPrefix(d, "did:sid:") {
		return d, d
	}
	return d, ""
}

// sidCreatedBy returns the sid DID whose first key document was made from the actor's sid key.
func (e *Env) sidCreatedBy(a *Actor) string {
	want := sidPubKeys(a, 0)[0].Value
	for _, root := range sortedKeys(e.Cur.Did.SidVersions) {
		if doc, ok := e.Cur.Did.SidDocs[root]; ok && len(doc.Keys) > 0 && doc.Keys[0].Value == want {
			return "did:sid:" + root
		}
	}
	return ""
}

// actorOfDid maps a DID (did:key or sid) back to the actor that controls its keys.
func (e *Env) actorOfDid(did string) *Actor {
	if a := e.W.ByDid[did]; a != nil {
		return a
	}
	if strings.HasPrefix(did, "did:sid:") {
		root := strings.TrimPrefix(did, "did:sid:")
		if doc, ok := e.Cur.Did.SidDocs[root]; ok && len(doc.Keys) > 0 {
			for _, a := range e.W.Actors {
				if sidPubKeys(a, 0)[0].Value == doc.Keys[0].Value {
					return a
				}
			}
		}
	}
	return nil
}

// forgeSid: for the "sidforge" variant the request names the victim's sid DID as owner while it is
// signed with a key of the signer's own sid; returns the victim DID, or "" when not applicable.
func (e *Env) forgeSid(tam string, signer *Actor, metaOwner string) string {
	if tam != "sidforge" {
		return ""
	}
	own := e.sidCreatedBy(signer)
	if !strings.HasPrefix(metaOwner, "did:sid:") || own == "" || own == metaOwner {
		return ""
	}
	return metaOwner
}

func (e *Env) jwsAs(signer *Actor, sidDid string, p marshaler, tam string, alt marshaler) saotypes.JwsSignature {
	bz, _ := p.Marshal()
	if tam == "payload" && alt != nil {
		bz, _ = alt.Marshal()
	}
	var s saotypes.JwsSignature
	if sidDid != "" {
		root := strings.TrimPrefix(sidDid, "did:sid:")
		if tam == "sidforge" {
			// the kid names the victim's sid but the key document version of the signer's own sid
			root = strings.TrimPrefix(e.sidCreatedBy(signer), "did:sid:")
		}
		vers := e.Cur.Did.SidVersions[root]
		idx := len(vers) - 1
		if idx < 0 {
			idx = 0
		}
		ver := root
		if len(vers) > 0 {
			ver = vers[idx]
		}
		hdr := fmt.Sprintf(`{"kid":"%s?versionId=%s#key-%d","alg":"ES256K"}`, sidDid, ver, idx)
		prot := base64url.Encode([]byte(hdr))
		input := prot + "." + base64url.Encode(bz)
		sig, err := sidKey(signer, idx).Sign([]byte(input))
		if err != nil {
			panic(err)
		}
		s = saotypes.JwsSignature{Protected: prot, Signature: base64url.Encode(sig)}
	} else {
		g, err := signer.Prov.CreateJWS(bz)
		if err != nil {
			panic(err)
		}
		s = saotypes.JwsSignature{Protected: g.Signatures[0].Protected, Signature: g.Signatures[0].Signature}
	}
	if tam == "sig" {
		b := []byte(s.Signature)
		if len(b) > 10 {
			if b[5] == 'A' {
				b[5] = 'B'
			} else {
				b[5] = 'A'
			}
		}
		s.Signature = string(b)
	}
	return s
}

// holderOf returns the actor holding the slot-th (1-based, modulo) open (waiting or
// migrating) shard — or completed shard — among the orders of data d, in order/shard id order.
func (e *Env) holderOf(d *DataInfo, slot int, completed bool) *Actor {
	s := e.Cur
	m, ok := s.Model.Metas[d.DataId]
	if !ok {
		return nil
	}
	seen := map[uint64]bool{}
	var hs []*Actor
	for _, oid := range append([]uint64{m.OrderId}, m.Orders...) {
		if seen[oid] {
			continue
		}
		seen[oid] = true
		o, ok := s.Order.Orders[oid]
		if !ok {
			continue
		}
		for _, sid := range o.Shards {
			sh, ok := s.Order.Shards[sid]
			if !ok {
				continue
			}
			open := sh.Status == ordertypes.ShardWaiting || sh.Status == ordertypes.ShardMigrating
			if (completed && sh.Status == ordertypes.ShardCompleted) || (!completed && open) {
				if a := e.W.ByAddr[sh.Sp]; a != nil {
					hs = append(hs, a)
				}
			}
		}
	}
	if len(hs) == 0 {
		return nil
	}
	return hs[(slot-1)%len(hs)]
}

// orderOf selects an order of data d per selector w.
func (e *Env) orderOf(d *DataInfo, w int) (ordertypes.Order, bool) {
	s := e.Cur
	m, ok := s.Model.Metas[d.DataId]
	if !ok {
		// orders of a data id whose metadata is gone (rare) or not yet created: search
		var best ordertypes.Order
		found := false
		for _, id := range orderIDs(s.Order) {
			o := s.Order.Orders[id]
			if o.DataId == d.DataId {
				best, found = o, true
			}
		}
		return best, found
	}
	id := m.OrderId
	if w > 0 && len(m.Orders) > 0 {
		k := len(m.Orders) - w
		if k < 0 {
			k = 0
		}
		id = m.Orders[k]
	}
	o, ok := s.Order.Orders[id]
	return o, ok
}

func (e *Env) build(op *Op) (*Built, string) {
	a := e.actor(op.A)
	if a == nil {
		return nil, "no-actor"
	}
	s := e.Cur
	switch op.K {
	case "node_create":
		return &Built{Msgs: []sdk.Msg{nodetypes.NewMsgCreate(a.AddrS)}, Signer: a}, ""
	case "node_reset":
		m := &nodetypes.MsgReset{Creator: a.AddrS, Status: uint32(op.N), Peer: "/ip4/127.0.0.1/tcp/" + fmt.Sprint(5000+op.A)}
		for _, i := range op.L {
			if x := e.actor(i); x != nil {
				m.TxAddresses = append(m.TxAddresses, x.AddrS)
			}
		}
		if v := e.ref(op.V, nil); v != nil {
			m.Validator = v.ValAddr.String()
			if op.Mode == "upper" { // bech32 allows an all-uppercase spelling of the same address
				m.Validator = strings.ToUpper(m.Validator)
			}
		}
		if op.W > 0 {
			m.Description = &nodetypes.Description{Moniker: a.Name, Details: fmt.Sprintf("details-%d", op.W), Website: "https://example.org"}
		}
		return &Built{Msgs: []sdk.Msg{m}, Signer: a}, ""
	case "add_vstorage":
		return &Built{Msgs: []sdk.Msg{nodetypes.NewMsgAddVstorage(a.AddrS, uint64(op.N))}, Signer: a}, ""
	case "remove_vstorage":
		return &Built{Msgs: []sdk.Msg{nodetypes.NewMsgRemoveVstorage(a.AddrS, uint64(op.N))}, Signer: a}, ""
	case "claim":
		return &Built{Msgs: []sdk.Msg{nodetypes.NewMsgClaimReward(a.AddrS)}, Signer: a}, ""
	case "gov_param":
		// a parameter-change proposal for the node module's offline trigger, with the full deposit
		ch := paramproposal.NewParameterChangeProposal("offline trigger", "change the keep-alive window",
			[]paramproposal.ParamChange{paramproposal.NewParamChange("node", "OfflineTriggerHeight", fmt.Sprintf("\"%d\"", op.N))})
		m, err := govv1beta1.NewMsgSubmitProposal(ch, sdk.NewCoins(sdk.NewInt64Coin(Denom, 10_000_000)), a.Addr)
		if err != nil {
			return nil, "gov-msg"
		}
		return &Built{Msgs: []sdk.Msg{m}, Signer: a}, ""
	case "gov_vote":
		return &Built{Msgs: []sdk.Msg{govv1beta1.NewMsgVote(a.Addr, uint64(op.N), govv1beta1.OptionYes)}, Signer: a}, ""
	case "set_payaddr":
		// did:key payment address. To: whose DID (+1, default own); N: 1 = foreign account id
		who := e.ref(op.To, a)
		acc := "cosmos:" + ChainID + ":" + a.AddrS
		if op.N == 1 {
			acc = "cosmos:" + ChainID + ":" + who.AddrS
		} else if op.N == 2 {
			acc = "cosmos:other-chain:" + a.AddrS
		}
		did := who.Did
		switch op.Mode { // DID-URL spellings of the same key DID
		case "frag":
			did += "#" + strings.TrimPrefix(who.Did, "did:key:")
		case "query":
			did += "?versionId=1"
		case "path":
			did += "/x"
		}
		return &Built{Msgs: []sdk.Msg{didtypes.NewMsgUpdatePaymentAddress(a.AddrS, acc, did)}, Signer: a}, ""
	case "send":
		to := e.ref(op.To, nil)
		if to == nil {
			return nil, "no-recipient"
		}
		amt := op.N
		if amt < 0 { // all but |N|
			bal := s.Bank.Bal[a.AddrS]
			x := bal.SubRaw(-amt)
			if !x.IsPositive() {
				return nil, "nothing-to-send"
			}
			amt = x.Int64()
		}
		return &Built{Msgs: []sdk.Msg{banktypes.NewMsgSend(a.Addr, to.Addr, sdk.NewCoins(sdk.NewInt64Coin(Denom, amt)))}, Signer: a}, ""
	case "delegate":
		v := e.ref(op.V, nil)
		if v == nil {
			return nil, "no-validator"
		}
		return &Built{Msgs: []sdk.Msg{stakingtypes.NewMsgDelegate(a.Addr, v.ValAddr, sdk.NewInt64Coin(Denom, op.N))}, Signer: a}, ""
	case "undelegate":
		v := e.ref(op.V, nil)
		if v == nil {
			return nil, "no-validator"
		}
		amt := op.N
		if amt <= 0 { // whole delegation
			d, ok := s.Stk.Dels[a.AddrS+"|"+v.ValAddr.String()]
			if !ok {
				return nil, "no-delegation"
			}
			val := s.Stk.Vals[v.ValAddr.String()]
			amt = val.TokensFromShares(d.Shares).TruncateInt().Int64()
			if amt <= 0 {
				return nil, "no-delegation"
			}
		}
		return &Built{Msgs: []sdk.Msg{stakingtypes.NewMsgUndelegate(a.Addr, v.ValAddr, sdk.NewInt64Coin(Denom, amt))}, Signer: a}, ""
	case "redelegate":
		v, v2 := e.ref(op.V, nil), e.ref(op.V2, nil)
		if v == nil || v2 == nil {
			return nil, "no-validator"
		}
		return &Built{Msgs: []sdk.Msg{stakingtypes.NewMsgBeginRedelegate(a.Addr, v.ValAddr, v2.ValAddr, sdk.NewInt64Coin(Denom, op.N))}, Signer: a}, ""
	case "unjail":
		return &Built{Msgs: []sdk.Msg{slashingtypes.NewMsgUnjail(a.ValAddr)}, Signer: a}, ""
	case "store":
		return e.buildStore(op, a)
	case "did_bind", "did_update", "sid_payaddr":
		return e.buildDid(op, a)
	case "ready":
		d := e.data(op.D)
		o, ok := e.orderOf(d, op.W)
		if !ok {
			return nil, "no-order"
		}
		prov := e.ref(op.Prov, a)
		return &Built{Msgs: []sdk.Msg{saotypes.NewMsgReady(a.AddrS, o.Id, prov.AddrS)}, Signer: a, Info: fmt.Sprintf("order=%d", o.Id)}, ""
	case "complete":
		d := e.data(op.D)
		if op.Slot > 0 {
			if h := e.holderOf(d, op.Slot, false); h != nil {
				a = h
			} else {
				return nil, "no-open-shard"
			}
		}
		prov := e.ref(op.Prov, a)
		// find an order of the data in which prov has an open shard; fall back to selector
		var target *ordertypes.Order
		var shard *ordertypes.Shard
		if m, ok := s.Model.Metas[d.DataId]; ok {
			cands := append([]uint64{m.OrderId}, m.Orders...)
			for _, oid := range cands {
				o, ok := s.Order.Orders[oid]
				if !ok {
					continue
				}
				for _, sid := range o.Shards {
					sh, ok := s.Order.Shards[sid]
					if ok && sh.Sp == prov.AddrS && (sh.Status == ordertypes.ShardWaiting || sh.Status == ordertypes.ShardMigrating) {
						oo, ss := o, sh
						target, shard = &oo, &ss
						break
					}
				}
				if target != nil {
					break
				}
			}
		}
		if target == nil {
			o, ok := e.orderOf(d, op.W)
			if !ok {
				return nil, "no-order"
			}
			target = &o
		}
		size := target.Size_
		if shard != nil {
			size = shard.Size_
		}
		if op.N != 0 {
			size = uint64(int64(size) + op.N)
		}
		c := target.Cid
		if op.Tam == "cid" {
			c = "not-a-cid"
		}
		return &Built{Msgs: []sdk.Msg{saotypes.NewMsgComplete(a.AddrS, target.Id, c, size, prov.AddrS)}, Signer: a, Info: fmt.Sprintf("order=%d", target.Id)}, ""
	case "cancel":
		d := e.data(op.D)
		o, ok := e.orderOf(d, op.W)
		if !ok {
			return nil, "no-order"
		}
		prov := e.ref(op.Prov, a)
		return &Built{Msgs: []sdk.Msg{saotypes.NewMsgCancel(a.AddrS, o.Id, prov.AddrS)}, Signer: a, Info: fmt.Sprintf("order=%d", o.Id)}, ""
	case "terminate":
		d := e.data(op.D)
		owner := e.ownerOf(d)
		signer := e.ref(op.Own, owner)
		if signer == nil {
			return nil, "no-owner"
		}
		if owner == nil {
			owner = signer
		}
		prov := e.ref(op.Prov, a)
		mo := s.Model.Metas[d.DataId].Owner
		sdid, sidDid := e.signAs(signer, mo, op.Sid)
		p := saotypes.TerminateProposal{Owner: sdid, DataId: d.DataId}
		alt := saotypes.TerminateProposal{Owner: sdid, DataId: e.data(op.D + 1).DataId}
		if op.Tam == "ownerfield" && mo != "" {
			p.Owner = mo
		}
		if op.Tam == "sidforge" {
			v := e.forgeSid(op.Tam, signer, mo)
			if v == "" {
				return nil, "no-forge"
			}
			p.Owner, sidDid = v, v
		}
		sig := e.jwsAs(signer, sidDid, &p, op.Tam, &alt)
		return &Built{Msgs: []sdk.Msg{saotypes.NewMsgTerminate(a.AddrS, p, sig, prov.AddrS)}, Signer: a,
			Auth: &AuthTruth{SignerDid: sdid, Intact: op.Tam == "" || (op.Tam == "ownerfield" && p.Owner == sdid), DataIds: []string{d.DataId}, Kind: "terminate"}}, ""
	case "renew":
		if len(op.Ds) == 0 {
			return nil, "no-data"
		}
		first := e.data(op.Ds[0])
		owner := e.ownerOf(first)
		signer := e.ref(op.Own, owner)
		if signer == nil {
			return nil, "no-owner"
		}
		if owner == nil {
			owner = signer
		}
		prov := e.ref(op.Prov, a)
		mo := s.Model.Metas[first.DataId].Owner
		sdid, sidDid := e.signAs(signer, mo, op.Sid)
		p := saotypes.RenewProposal{Owner: sdid, Duration: op.Dur, Timeout: op.Tmo}
		var ids []string
		for _, di := range op.Ds {
			p.Data = append(p.Data, e.data(di).DataId)
			ids = append(ids, e.data(di).DataId)
		}
		alt := p
		alt.Duration = op.Dur + 1
		if op.Tam == "ownerfield" && mo != "" {
			p.Owner = mo
		}
		if op.Tam == "sidforge" {
			v := e.forgeSid(op.Tam, signer, mo)
			if v == "" {
				return nil, "no-forge"
			}
			p.Owner, sidDid = v, v
		}
		sig := e.jwsAs(signer, sidDid, &p, op.Tam, &alt)
		return &Built{Msgs: []sdk.Msg{saotypes.NewMsgRenew(a.AddrS, &p, &sig, prov.AddrS)}, Signer: a,
			Auth: &AuthTruth{SignerDid: sdid, Intact: op.Tam == "" || (op.Tam == "ownerfield" && p.Owner == sdid), DataIds: ids, Kind: "renew"}}, ""
	case "migrate":
		if op.Slot > 0 && len(op.Ds) > 0 {
			if h := e.holderOf(e.data(op.Ds[0]), op.Slot, true); h != nil {
				a = h
			} else {
				return nil, "no-completed-shard"
			}
		}
		prov := e.ref(op.Prov, a)
		var ids []string
		for _, di := range op.Ds {
			ids = append(ids, e.data(di).DataId)
		}
		return &Built{Msgs: []sdk.Msg{saotypes.NewMsgMigrate(a.AddrS, ids, prov.AddrS)}, Signer: a}, ""
	case "perm":
		d := e.data(op.D)
		owner := e.ownerOf(d)
		signer := e.ref(op.Own, owner)
		if signer == nil {
			return nil, "no-owner"
		}
		if owner == nil {
			owner = signer
		}
		prov := e.ref(op.Prov, a)
		mo := s.Model.Metas[d.DataId].Owner
		sdid, sidDid := e.signAs(signer, mo, op.Sid)
		p := saotypes.PermissionProposal{Owner: sdid, DataId: d.DataId}
		for _, i := range op.L {
			if x := e.actor(i); x != nil {
				p.ReadonlyDids = append(p.ReadonlyDids, x.Did)
			}
		}
		for _, i := range op.L2 {
			if x := e.actor(i); x != nil {
				p.ReadwriteDids = append(p.ReadwriteDids, x.Did)
			}
		}
		alt := p
		alt.ReadwriteDids = nil
		alt.ReadonlyDids = []string{signer.Did}
		if op.Tam == "ownerfield" && mo != "" {
			p.Owner = mo
		}
		if op.Tam == "sidforge" {
			v := e.forgeSid(op.Tam, signer, mo)
			if v == "" {
				return nil, "no-forge"
			}
			p.Owner, sidDid = v, v
		}
		sig := e.jwsAs(signer, sidDid, &p, op.Tam, &alt)
		return &Built{Msgs: []sdk.Msg{saotypes.NewMsgUpdataPermission(a.AddrS, p, sig, prov.AddrS)}, Signer: a,
			Auth: &AuthTruth{SignerDid: sdid, Intact: op.Tam == "" || (op.Tam == "ownerfield" && p.Owner == sdid), DataIds: []string{d.DataId}, Kind: "perm"}}, ""
	case "report", "recover":
		acc := e.ref(op.Acc, nil)
		if acc == nil {
			return nil, "no-accused"
		}
		d := e.data(op.D)
		o, ok := e.orderOf(d, op.W)
		f := &saotypes.Fault{DataId: d.DataId, Provider: acc.AddrS, Reporter: a.AddrS, CommitId: "fault-" + fmt.Sprint(op.N)}
		if ok {
			f.OrderId = o.Id
			if op.K == "recover" {
				f.CommitId = o.Commit
			}
			for _, sid := range o.Shards {
				if sh, ok := s.Order.Shards[sid]; ok && sh.Sp == acc.AddrS {
					f.ShardId = sid
				}
			}
			if op.Mis == "shard" && len(o.Shards) > 0 { // a shard of the order held by someone else
				for _, sid := range o.Shards {
					if sh, ok := s.Order.Shards[sid]; ok && sh.Sp != acc.AddrS {
						f.ShardId = sid
					}
				}
			}
		}
		switch op.Mis {
		case "xorder":
			// a live shard of the accused that belongs to a different order / data model
			for _, sid := range shardIDs(s.Order) {
				sh := s.Order.Shards[sid]
				if sh.Sp == acc.AddrS && sh.OrderId != f.OrderId && sh.Status == ordertypes.ShardCompleted {
					f.ShardId = sid
				}
			}
		case "order":
			f.OrderId += 1
		case "data":
			f.DataId = e.data(op.D + 1).DataId
		case "noshard":
			f.ShardId = s.Order.ShardCount + 5
		case "commit":
			if ok {
				f.CommitId = o.Commit
			}
		}
		if op.Cm != "" && op.K == "report" {
			f.CommitId = op.Cm
		}
		prov := acc.AddrS
		if op.Mis == "provider" {
			prov = a.AddrS
		}
		if op.K == "report" {
			return &Built{Msgs: []sdk.Msg{&saotypes.MsgReportFaults{Creator: a.AddrS, Provider: prov, Faults: []*saotypes.Fault{f}}}, Signer: a}, ""
		}
		return &Built{Msgs: []sdk.Msg{&saotypes.MsgRecoverFaults{Creator: a.AddrS, Provider: prov, Faults: []*saotypes.Fault{f}}}, Signer: a}, ""
	}
	return nil, "unknown-op"
}

func (e *Env) buildStore(op *Op, a *Actor) (*Built, string) {
	s := e.Cur
	d := e.data(op.D)
	meta, exists := s.Model.Metas[d.DataId]
	owner := e.ownerOf(d)
	signer := e.ref(op.Own, owner)
	if signer == nil {
		return nil, "no-signer"
	}
	prov := e.ref(op.Prov, a)
	pp := e.ref(op.PP, prov)
	ver := d.NextVer
	newCommit := e.commitId(op.D, ver)
	commitField := ""
	operation := uint32(1)
	switch op.Mode {
	case "new":
		commitField = d.DataId
		if ver > 0 {
			// re-creation after cancel/terminate/expiry: commit id must still embed the data id
			commitField = d.DataId
		}
	case "update", "force":
		if op.Mode == "force" {
			operation = 2
		}
		base := ""
		if exists {
			base = meta.Commit
		}
		switch op.Base {
		case "", "latest":
		case "stale":
			if exists && len(meta.Commits) >= 2 {
				base = strings.Split(meta.Commits[len(meta.Commits)-2], string([]byte{26}))[0]
			} else {
				base = e.commitId(op.D, 9999)
			}
		case "empty":
			base = ""
		case "prefix":
			if len(base) > 6 {
				base = base[:6]
			}
		case "embed":
			// crafted: new commit id embeds the data id, which skips the permission check
			newCommit = d.DataId + "-" + fmt.Sprint(ver)
			if len(newCommit) > 36 {
				newCommit = newCommit[:36]
			}
		case "short":
			newCommit = newCommit[:20]
		case "wrong":
			base = e.commitId(op.D, 7777)
		}
		commitField = base + "|" + newCommit
		if op.Base == "nosep" {
			commitField = newCommit
		}
		if op.Base == "embed" {
			commitField = base + "|" + d.DataId
		}
	default:
		return nil, "bad-mode"
	}
	sdid := e.signerDid(signer, op.Sid)
	if owner != nil && meta.Owner != "" && e.actorOfDid(meta.Owner) == signer && strings.HasPrefix(meta.Owner, "did:sid:") {
		sdid = meta.Owner // the owner of a sid-owned model signs as that sid
	}
	sidDid := ""
	if strings.HasPrefix(sdid, "did:sid:") {
		sidDid = sdid
	}
	p := saotypes.Proposal{
		Owner:     sdid,
		Provider:  pp.AddrS,
		GroupId:   "g",
		Duration:  op.Dur,
		Replica:   op.Rep,
		Timeout:   op.Tmo,
		Alias:     aliasOf(op.D),
		DataId:    d.DataId,
		CommitId:  commitField,
		Cid:       makeCid(fmt.Sprintf("cid-%d-%d-%d", e.W.Cfg.Seed, op.D, ver)),
		Size_:     op.Size,
		Operation: operation,
	}
	for _, i := range op.L {
		if x := e.actor(i); x != nil {
			p.ReadonlyDids = append(p.ReadonlyDids, x.Did)
		}
	}
	if sp := e.ref(op.Pay, nil); sp != nil {
		p.PaymentDid = sp.Did
	}
	if op.Tam == "ownerfield" && owner != nil {
		p.Owner = meta.Owner
	}
	if op.Tam == "sidforge" {
		v := e.forgeSid(op.Tam, signer, meta.Owner)
		if v == "" {
			return nil, "no-forge"
		}
		p.Owner, sidDid = v, v
	}
	alt := p
	alt.Size_ = p.Size_ + 1
	sig := e.jwsAs(signer, sidDid, &p, op.Tam, &alt)
	d.NextVer++
	return &Built{Msgs: []sdk.Msg{saotypes.NewMsgStore(a.AddrS, &p, &sig, prov.AddrS)}, Signer: a,
		Auth: &AuthTruth{SignerDid: sdid, Intact: op.Tam == "" || (op.Tam == "ownerfield" && p.Owner == sdid), DataIds: []string{d.DataId}, Kind: "store"},
		Info: "commit=" + commitField}, ""
}


// aliasOf: most models carry their own alias; some are stored without one, and a few share one
// alias (the same owner storing a second model under it is refused by the chain).
func aliasOf(d int) string {
	switch {
	case d%7 == 3:
		return ""
	case d%11 == 5:
		return "shared"
	}
	return fmt.Sprintf("alias-%d", d)
}
