package main

// gen.go: swarm configuration and the adaptive trace generator. The generator looks at
// the observer's state to prefer applicable operations, but what it emits is a
// self-contained symbolic trace; replay and shrinking execute the trace only.

import (
	"fmt"
	"sort"
	"strings"

	nodetypes "github.com/SaoNetwork/sao/x/node/types"
	ordertypes "github.com/SaoNetwork/sao/x/order/types"
)

// Profile tunes op weights and horizons.
type Profile struct {
	Name     string
	Horizon  [2]int // blocks
	Long     bool
	W        map[string]float64 // op-kind weights
	AdvRate  float64            // probability that a generated op is an adversarial variant
	Silence  float64            // probability that an assigned SP stays silent for an attempt
	DropRate float64
	DupRate  float64
	TmoMax   int
	Staking  bool
	Drain    bool // always end with the capacity drain phase
	Crowd    bool // 30-48 providers, large replica counts
}

var baseWeights = map[string]float64{
	"did_bind": 1.2, "did_update": 0.3, "sid_payaddr": 0.2, "ready": 6,
	"store_new": 10, "store_update": 6, "complete": 22, "cancel": 2, "terminate": 2, "renew": 3, "migrate": 2,
	"perm": 2, "claim": 4, "add_vstorage": 2, "remove_vstorage": 2, "node_reset": 1.5, "report": 1, "recover": 1,
	"gov_param": 0.25, "send": 1, "delegate": 1, "undelegate": 0.7, "redelegate": 0.4, "adv": 3, "set_payaddr": 0.5, "node_create": 0.3,
}

func cloneW(m map[string]float64, over map[string]float64) map[string]float64 {
	o := map[string]float64{}
	for k, v := range m {
		o[k] = v
	}
	for k, v := range over {
		o[k] = v
	}
	return o
}

func getProfile(name string) *Profile {
	switch name {
	case "mixed":
		return &Profile{Name: name, Horizon: [2]int{120, 400}, W: cloneW(baseWeights, nil), AdvRate: 0.1, Silence: 0.15, DropRate: 0.03, DupRate: 0.03, TmoMax: 25}
	case "long":
		return &Profile{Name: name, Horizon: [2]int{3700, 5600}, Long: true, W: cloneW(baseWeights, map[string]float64{"renew": 8, "migrate": 4, "store_new": 8}), AdvRate: 0.03, Silence: 0.1, TmoMax: 40}
	case "longer":
		return &Profile{Name: name, Horizon: [2]int{7300, 9000}, Long: true, W: cloneW(baseWeights, map[string]float64{"renew": 8, "migrate": 4, "store_new": 8}), AdvRate: 0.03, Silence: 0.1, TmoMax: 40}
	case "longest":
		return &Profile{Name: name, Horizon: [2]int{9000, 14500}, Long: true, W: cloneW(baseWeights, map[string]float64{"renew": 9, "migrate": 4, "store_new": 7}), AdvRate: 0.03, Silence: 0.1, TmoMax: 40}
	case "timeout":
		return &Profile{Name: name, Horizon: [2]int{150, 500}, W: cloneW(baseWeights, map[string]float64{"store_new": 14, "store_update": 8, "complete": 14, "renew": 1, "terminate": 1, "cancel": 3}), AdvRate: 0.03, Silence: 0.5, TmoMax: 12}
	case "staking":
		return &Profile{Name: name, Horizon: [2]int{100, 350}, Staking: true, W: cloneW(baseWeights, map[string]float64{"delegate": 12, "undelegate": 8, "redelegate": 5, "node_reset": 5, "add_vstorage": 5, "remove_vstorage": 5, "send": 3, "store_new": 5, "complete": 8}), AdvRate: 0.05, Silence: 0.1, TmoMax: 20}
	case "authz":
		return &Profile{Name: name, Horizon: [2]int{120, 350}, W: cloneW(baseWeights, map[string]float64{"adv": 25, "perm": 6, "store_update": 10, "terminate": 3, "renew": 4}), AdvRate: 0.35, Silence: 0.1, DupRate: 0.05, TmoMax: 25}
	case "faults":
		return &Profile{Name: name, Horizon: [2]int{200, 1300}, W: cloneW(baseWeights, map[string]float64{"report": 14, "recover": 10, "store_new": 10, "complete": 20}), AdvRate: 0.05, Silence: 0.05, TmoMax: 25}
	case "did":
		return &Profile{Name: name, Horizon: [2]int{80, 260}, W: cloneW(baseWeights, map[string]float64{"did_bind": 22, "did_update": 9, "sid_payaddr": 6, "set_payaddr": 6, "store_new": 3, "complete": 4, "adv": 1, "report": 0, "recover": 0}), AdvRate: 0.05, Silence: 0.1, DupRate: 0.08, TmoMax: 25}
	case "crowd":
		// many providers, orders that ask for nearly as many replicas as there are eligible providers:
		// the seeded selection has to draw until its seed is used up
		return &Profile{Name: name, Horizon: [2]int{40, 110}, Crowd: true, W: cloneW(baseWeights, map[string]float64{"store_new": 12, "complete": 10, "store_update": 2, "renew": 1, "migrate": 2, "report": 0, "recover": 0, "adv": 1}), AdvRate: 0.03, Silence: 0.3, TmoMax: 12}
	case "capacity":
		// providers only: capacity is added, withdrawn in odd sizes and finally drained completely, with
		// rewards accruing and being claimed in between; no storage orders at all
		return &Profile{Name: name, Horizon: [2]int{30, 120}, Drain: true, W: cloneW(baseWeights, map[string]float64{"store_new": 0, "store_update": 0, "complete": 0, "ready": 0, "renew": 0, "migrate": 0, "terminate": 0, "cancel": 0, "perm": 0, "report": 0, "recover": 0, "adv": 0, "claim": 8, "add_vstorage": 10, "remove_vstorage": 10, "node_reset": 2}), Silence: 0.1, TmoMax: 25}
	case "reward":
		return &Profile{Name: name, Horizon: [2]int{150, 600}, W: cloneW(baseWeights, map[string]float64{"claim": 12, "add_vstorage": 8, "remove_vstorage": 8, "store_new": 6, "complete": 14}), AdvRate: 0.03, Silence: 0.1, TmoMax: 25}
	}
	panic("unknown profile " + name)
}

// totalRewardCap: the documented total of storage rewards (x/node: "400000000000000sao"), halved
// in ages: age k begins when the counter reaches cap*(1-2^-k).
const totalRewardCap int64 = 400_000_000_000_000

// DrawConfig draws the swarm configuration of a run.
func DrawConfig(seed uint64, prof *Profile) Config {
	r := NewRng(seed).Sub("config")
	c := Config{Seed: seed, Profile: prof.Name}
	c.NOwners = r.Range(2, 4)
	c.NSponsors = r.Range(1, 2)
	c.NGateways = r.Range(1, 3)
	c.NSPs = r.Range(2, 9)
	if r.Chance(0.15) {
		c.NSPs = r.Range(10, 24)
	}
	if prof.Crowd {
		c.NSPs = r.Range(30, 48)
	}
	c.NFishmen = r.Range(0, 3)
	if prof.Name == "faults" {
		c.NFishmen = r.Range(2, 4)
	}
	c.NValidators = r.Range(1, 3)
	c.NDelegators = r.Range(1, 3)
	c.NAdv = r.Range(1, 2)
	c.UnbondingS = int64(r.Range(200_000, 400_000)) // > 3 maximal block gaps: a validator is never removed while Tendermint still carries its vote
	c.SignedBlocksWindow = int64(r.Range(20, 60))
	n := &c.Node
	n.BlockReward = []int64{0, 50, 1000, 6_250_000, 1_000_000_000}[r.Pick([]float64{0.5, 3, 4, 2, 0.5})]
	n.Baseline = []int64{0, 2_000, 50_000, 10_000_000}[r.Pick([]float64{1, 3, 3, 2})]
	n.APY = []string{"0.5", "0.05", "2", "0", "-0.5"}[r.Pick([]float64{4, 2, 2, 0.3, 0.25})]
	n.HalvingPeriod = int64(r.Range(11, 400))
	if r.Chance(0.2) {
		n.HalvingPeriod = 32_000_000
	}
	n.AdjustmentPeriod = int64(r.Range(11, 200))
	n.MaxPenalty = uint64(r.Range(11, 60))
	n.ShareThreshold = []string{"0.1", "0.01", "0.5", "0.34"}[r.Intn(4)]
	n.VstorageThreshold = []int64{1_000_000, 50_000_000, 1, 2_000_000_000}[r.Pick([]float64{4, 3, 1, 1})]
	n.OfflineTrigger = int64([]int{1800, 40, 100000, 7}[r.Pick([]float64{4, 2, 2, 0.5})])
	for i := 0; i < c.NSPs; i++ {
		if r.Chance(0.12) {
			c.PoorSPs = append(c.PoorSPs, i)
		}
	}
	for i := 0; i < c.NOwners; i++ {
		if r.Chance(0.1) {
			c.PoorOwners = append(c.PoorOwners, i)
		}
	}
	// some chains start shortly before a halving of the reward (imported genesis of an old chain)
	if p := 0.06; n.BlockReward > 0 && r.Chance(map[bool]float64{true: 0.3, false: p}[prof.Name == "reward" || prof.Name == "capacity"]) {
		k := uint(r.Range(1, 4))
		n.RewardStart = totalRewardCap - totalRewardCap>>k - n.BlockReward*int64(r.Range(0, 80))
		if n.RewardStart < 0 {
			n.RewardStart = 0
		}
	}
	return c
}

// Gen is the adaptive generator.
type Gen struct {
	e           *Env
	r           *Rng
	p           *Profile
	horizon     int
	nextData    int
	setupQ      []Step
	silent      map[string]bool // "sp|order" -> stays silent for this attempt
	dead        map[int]bool    // data idx known removed
	quiesce     int             // height at which quiescence phase starts
	activeUntil int
	Regen       bool
	regenAt     int
	regenDone   bool
	drain       bool
	drainStep   int
	chased      bool
	runout      bool
	nextOp      *Op
	noPay       map[int]bool // owners without a payment address
	pendingOps  []*Op // further queued ops (one per following draw)
	proposals   int
	chaseRoll   bool
	everSid     map[int]string // actor -> sid DID it has been listed in at some point
	chase12     int            // remaining jumps to the next examination of a stalled long-timeout order
}

func NewGen(e *Env, prof *Profile) *Gen {
	g := &Gen{e: e, r: NewRng(e.W.Cfg.Seed).Sub("workload"), p: prof, silent: map[string]bool{}, dead: map[int]bool{}}
	g.horizon = g.r.Range(prof.Horizon[0], prof.Horizon[1])
	g.quiesce = g.horizon
	g.regenAt = g.r.Range(g.horizon/5, g.horizon*9/10)
	g.drain = g.r.Chance(0.2) || prof.Drain
	g.chaseRoll = NewRng(e.W.Cfg.Seed).Sub("chaseroll").Chance(0.15)
	g.runout = prof.Long && NewRng(e.W.Cfg.Seed).Sub("runout").Chance(0.5)
	if NewRng(e.W.Cfg.Seed).Sub("chase12").Chance(0.25) {
		g.chase12 = 3
	}
	g.setup()
	return g
}

const fullStatus = int64(nodetypes.NODE_STATUS_ONLINE | nodetypes.NODE_STATUS_SERVE_GATEWAY | nodetypes.NODE_STATUS_SERVE_STORAGE | nodetypes.NODE_STATUS_ACCEPT_ORDER)

func (g *Gen) sizes() uint64 {
	r := g.r
	switch r.Pick([]float64{4, 3, 2, 1, 0.5}) {
	case 0:
		return uint64(r.Range(1, 5)) * 1_000_000
	case 1:
		return uint64(int64(r.Range(1, 4))*1_000_000 + int64(r.Range(-1, 1)))
	case 2:
		return uint64(r.Range(1, 999_999))
	case 3:
		return uint64(r.Range(1, 20))
	}
	return 0
}

func (g *Gen) setup() {
	w := g.e.W
	r := g.r
	var b1, b2, b3 []Op
	nodes := append(append(append([]*Actor{}, w.Gateways...), w.SPs...), w.Fishmen...)
	nodes = append(nodes, w.Advs...)
	for _, a := range nodes {
		b1 = append(b1, Op{K: "node_create", A: a.Idx})
		st := fullStatus
		if a.Role == RoleSP && r.Chance(0.12) {
			st = int64([]uint32{1 | 4, 1 | 4 | 8 | 32, 4 | 8, 1 | 2 | 4 | 8 | 16 | 32}[r.Intn(4)])
		}
		op := Op{K: "node_reset", A: a.Idx, N: st}
		if r.Chance(0.3) {
			op.W = r.Range(1, 9)
		}
		if a.Role == RoleAdversary {
			// attacker-declared transaction addresses: victims' accounts
			for _, v := range w.Owners {
				op.L = append(op.L, v.Idx)
			}
			for _, v := range w.Gateways {
				op.L = append(op.L, v.Idx)
			}
			for _, v := range w.SPs {
				if r.Chance(0.5) {
					op.L = append(op.L, v.Idx)
				}
			}
			for _, v := range w.Delegators { // the attacker's own second accounts
				op.L = append(op.L, v.Idx)
			}
		}
		if g.p.Staking && len(w.Validators) > 0 && r.Chance(0.6) {
			op.V = w.Validators[r.Intn(len(w.Validators))].Idx + 1
		}
		b2 = append(b2, op)
		if a.Role == RoleSP || a.Role == RoleAdversary || (a.Role == RoleGateway && r.Chance(0.3)) {
			if r.Chance(0.92) {
				sz := int64(r.Range(3, 60)) * 1_000_000
				if r.Chance(0.2) {
					sz = int64(r.Range(1, 3))*1_000_000 + int64(r.Range(-1, 1))
				}
				if g.p.Staking && r.Chance(0.5) {
					sz = w.Cfg.Node.VstorageThreshold + int64(r.Range(-2, 5_000_000))
					if sz < 1 {
						sz = 1
					}
				}
				for j, s := range w.SPs {
					if s == a && inInts(w.Cfg.PoorSPs, j) {
						sz = int64(r.Range(3, 5)) * 1_000_000
					}
				}
				b3 = append(b3, Op{K: "add_vstorage", A: a.Idx, N: sz})
			}
		}
	}
	g.noPay = map[int]bool{}
	for i, a := range append(append([]*Actor{}, w.Owners...), w.Sponsors...) {
		if i > 0 && i < len(w.Owners) && len(w.Sponsors) > 0 && NewRng(g.e.W.Cfg.Seed).Sub(fmt.Sprintf("nopay%d", i)).Chance(0.12) {
			// an owner that never registers a payment address: it can only store through a sponsor
			g.noPay[a.Idx] = true
			continue
		}
		b1 = append(b1, Op{K: "set_payaddr", A: a.Idx})
	}
	for _, a := range w.Advs {
		b1 = append(b1, Op{K: "set_payaddr", A: a.Idx})
	}
	if g.p.Staking {
		for _, a := range nodes {
			if len(w.Validators) > 0 && r.Chance(0.6) {
				v := w.Validators[r.Intn(len(w.Validators))]
				b1 = append(b1, Op{K: "delegate", A: a.Idx, V: v.Idx + 1, N: int64(r.Range(1, 400)) * 1_000_000})
			}
		}
	}
	g.setupQ = []Step{{Dt: 5, Ops: b1}, {Dt: 5, Ops: b2}, {Dt: 5, Ops: b3}}
}

// Next returns the next step, or nil when the run is over.
func (g *Gen) Next() *Step {
	e := g.e
	if e.Dead {
		return nil
	}
	if len(g.setupQ) > 0 {
		s := g.setupQ[0]
		g.setupQ = g.setupQ[1:]
		return &s
	}
	if g.everSid == nil {
		g.everSid = map[int]string{}
	}
	for _, did := range sortedKeys(e.Cur.Did.AccountLists) {
		for _, ad := range e.Cur.Did.AccountLists[did] {
			if a := e.W.ByAddr[strings.TrimPrefix(e.Cur.Did.AccountIds[ad], "cosmos:"+ChainID+":")]; a != nil {
				g.everSid[a.Idx] = did
			}
		}
	}
	h := int(e.Seq.Height)
	if h >= g.horizon && g.runout {
		// run-out (some long runs): follow the chain until the last paid shard term and the last
		// model lifetime have ended, so that every end-of-life housekeeping path is executed
		g.runout = false
		last := uint64(0)
		lim := uint64(h) + 9000 // the latest end of a paid term or model lifetime within reach
		for _, sh := range e.Cur.Order.Shards {
			if sh.Status != ordertypes.ShardCompleted {
				continue
			}
			end := sh.CreatedAt + sh.Duration
			if end > last && end < lim {
				last = end
			}
			for _, ri := range sh.RenewInfos {
				end += ri.Duration
				if end > last && end < lim {
					last = end
				}
			}
		}
		for _, m := range e.Cur.Model.Metas {
			if end := m.CreatedAt + m.Duration; end > last && end < lim {
				last = end
			}
		}
		if last > uint64(h) && last < uint64(h)+9000 {
			g.horizon = int(last) + 3
			e.probe("run_out_to_last_expiry")
			return &Step{Idle: int(last) - h}
		}
	}
	if h >= g.horizon {
		return nil
	}
	r := g.r
	// directed exploration: if a model is scheduled to expire before one of its paid shards, go and
	// see what happens at that height (only the actual disappearance is ever reported, by C11)
	if !g.chased {
		s := e.Cur
		for _, id := range sortedKeys(s.Model.Metas) {
			m := s.Model.Metas[id]
			end := m.CreatedAt + m.Duration
			if int(end) <= h || end > uint64(h)+9000 {
				continue
			}
			for _, oid := range m.Orders {
				o, ok := s.Order.Orders[oid]
				if !ok {
					continue
				}
				for _, sid := range o.Shards {
					sh, ok := s.Order.Shards[sid]
					if !ok || sh.Status != ordertypes.ShardCompleted {
						continue
					}
					paid := sh.CreatedAt + sh.Duration
					for _, ri := range sh.RenewInfos {
						paid += ri.Duration
					}
					if end < paid {
						g.chased = true
						e.probe("chased_model_expiry_before_shard_end")
						if g.horizon < int(end)+3 {
							g.horizon = int(end) + 3
						}
						return &Step{Idle: int(end) - h}
					}
				}
			}
		}
	}
	// and for roll-overs: a renewed shard is followed to the end of its current term, and the run goes
	// on for a while after the roll-over to its renewal order
	if g.chaseRoll && !g.p.Long {
		s := e.Cur
		best := uint64(0)
		for _, sid := range shardIDs(s.Order) {
			sh := s.Order.Shards[sid]
			if sh.Status != ordertypes.ShardCompleted || len(sh.RenewInfos) == 0 {
				continue
			}
			if end := sh.CreatedAt + sh.Duration; end > uint64(h)+50 && end < uint64(h)+9000 && (best == 0 || end < best) {
				best = end
			}
		}
		if best > 0 && h > g.horizon/2 {
			g.chaseRoll = false
			e.probe("chased_roll_over_of_renewed_shard")
			if g.horizon < int(best)+80 {
				g.horizon = int(best) + 80
			}
			g.quiesce = g.horizon
			return &Step{Idle: int(best) + 1 - h}
		}
	}
	// same idea for C12: an order with stalled shards whose next examination lies far ahead (long
	// timeouts) is followed to that height, a few times per run
	if g.chase12 > 0 {
		s := e.Cur
		ats := make([]uint64, 0, len(s.Sao.Timeouts))
		for at := range s.Sao.Timeouts {
			ats = append(ats, at)
		}
		sort.Slice(ats, func(i, j int) bool { return ats[i] < ats[j] })
		for _, at := range ats {
			if int(at) <= h+60 || at > uint64(h)+5000 {
				continue
			}
			hit := false
			for _, oid := range s.Sao.Timeouts[at] {
				if o, ok := s.Order.Orders[oid]; ok && o.Status != ordertypes.OrderPending {
					if w, _ := hasWaiting(s, o); w > 0 {
						hit = true
					}
				}
			}
			if hit {
				g.chase12--
				e.probe("chased_examination_of_stalled_long_timeout_order")
				if g.horizon < int(at)+3 {
					g.horizon = int(at) + 3
				}
				return &Step{Idle: int(at) - h}
			}
		}
	}
	// drain phase (some runs): near the end every provider withdraws its free capacity in two
	// odd-sized steps, so that "capacity removed, pledge/pool leftovers" states are reached
	if g.drain && !g.p.Long && h >= g.horizon-14 && g.drainStep < 2 {
		st := &Step{Dt: 5}
		for _, k := range sortedKeys(e.Cur.Node.Pledges) {
			pl := e.Cur.Node.Pledges[k]
			a := e.W.ByAddr[k]
			free := pl.TotalStorage - pl.UsedStorage
			if a == nil || free <= 0 {
				continue
			}
			n := free
			if g.drainStep == 0 {
				n = free/2 + []int64{500_000, 0, 1, 499_999}[NewRng(e.W.Cfg.Seed).Sub("drain"+k).Intn(4)]
			}
			st.Ops = append(st.Ops, Op{K: "remove_vstorage", A: a.Idx, N: n, Note: "drain"})
		}
		g.drainStep++
		e.probe("capacity_drain_phase")
		return st
	}
	if g.Regen && !g.regenDone && h >= g.regenAt {
		g.regenDone = true
		return &Step{Regen: true}
	}
	// long profile: bursts of activity around scheduled heights, idle stretches between
	if g.p.Long {
		if g.activeUntil == 0 {
			g.activeUntil = h + r.Range(30, 90)
		}
		if h >= g.activeUntil {
			next := g.nextScheduled(h)
			gap := next - h - r.Range(1, 3)
			if h+gap > g.horizon {
				gap = g.horizon - h
			}
			if gap > 0 {
				g.activeUntil = h + gap + r.Range(3, 9)
				return &Step{Idle: gap}
			}
			g.activeUntil = h + r.Range(2, 6)
		}
	}
	st := &Step{Dt: g.drawDt()}
	// heartbeats: SP software re-announces itself before the offline trigger passes
	trig := e.W.Cfg.Node.OfflineTrigger
	for _, k := range sortedKeys(e.Cur.Node.Nodes) {
		nd := e.Cur.Node.Nodes[k]
		a := e.W.ByAddr[k]
		if a == nil || nd.Status&1 == 0 {
			continue
		}
		if nd.LastAliveHeight+trig < int64(h)+4 && r.Chance(0.8) {
			st.Ops = append(st.Ops, Op{K: "node_reset", A: a.Idx, N: int64(nd.Status), Note: "heartbeat"})
		}
	}
	n := r.Pick([]float64{3, 4, 2.5, 1.2, 0.5})
	for i := 0; i < n; i++ {
		if op := g.genOp(); op != nil {
			if r.Chance(g.p.DropRate) {
				e.fault("F1.tx_dropped")
				continue
			}
			if r.Chance(g.p.DupRate) {
				op.Dup = 1
			}
			st.Ops = append(st.Ops, *op)
		}
	}
	if len(st.Ops) > 1 && r.Chance(0.3) {
		e.fault("F3.tx_reordered")
		p := r.Perm(len(st.Ops))
		no := make([]Op, len(st.Ops))
		for i, j := range p {
			no[i] = st.Ops[j]
		}
		st.Ops = no
	}
	if len(e.W.Validators) > 1 && r.Chance(0.02) {
		st.Absent = []int{1 + r.Intn(len(e.W.Validators)-1)}
	}
	return st
}

func (g *Gen) drawDt() int {
	r := g.r
	switch r.Pick([]float64{20, 2, 0.3}) {
	case 0:
		return r.Range(1, 6)
	case 1:
		return r.Range(30, 600)
	}
	g.e.fault("F10.block_time_gap")
	return r.Range(3600, 60000)
}

func (g *Gen) nextScheduled(h int) int {
	s := g.e.Cur
	best := g.horizon
	for k := range s.Sao.Timeouts {
		if int(k) > h && int(k) < best {
			best = int(k)
		}
	}
	for k := range s.Sao.Expired {
		if int(k) > h && int(k) < best {
			best = int(k)
		}
	}
	for k := range s.Model.Expired {
		if int(k) > h && int(k) < best {
			best = int(k)
		}
	}
	if x := (h/600 + 1) * 600; x < best {
		best = x
	}
	return best
}

func (g *Gen) pickActor(xs []*Actor) *Actor {
	if len(xs) == 0 {
		return nil
	}
	return xs[g.r.Intn(len(xs))]
}

type metaRef struct {
	d    int
	id   string
	stat int32
}

func (g *Gen) metas() []metaRef {
	s := g.e.Cur
	var out []metaRef
	for i, d := range g.e.Data {
		if m, ok := s.Model.Metas[d.DataId]; ok {
			out = append(out, metaRef{i, d.DataId, m.Status})
		}
	}
	return out
}

// collidingReports: two reports by one fishman against two shards of one provider whose
// commit-id and shard-id strings concatenate to the same text ("x"+"12" and "x1"+"2").
func (g *Gen) collidingReports(rep *Actor) (*Op, *Op) {
	e, s := g.e, g.e.Cur
	type held struct {
		sid uint64
		d   int
	}
	by := map[string][]held{}
	for i, d := range e.Data {
		m, ok := s.Model.Metas[d.DataId]
		if !ok {
			continue
		}
		o, ok := s.Order.Orders[m.OrderId]
		if !ok {
			continue
		}
		for _, sid := range o.Shards {
			if sh, ok := s.Order.Shards[sid]; ok && sh.Status == ordertypes.ShardCompleted {
				by[sh.Sp] = append(by[sh.Sp], held{sid, i})
			}
		}
	}
	for _, sp := range sortedKeys(by) {
		a := e.W.ByAddr[sp]
		if a == nil {
			continue
		}
		hs := by[sp]
		for _, x := range hs {
			for _, y := range hs {
				sx, sy := fmt.Sprint(x.sid), fmt.Sprint(y.sid)
				if x.d != y.d && len(sx) > len(sy) && strings.HasSuffix(sx, sy) {
					pre := sx[:len(sx)-len(sy)]
					return &Op{K: "report", A: rep.Idx, Acc: a.Idx + 1, D: x.d, Cm: "fault-", Note: "colliding-id-1"},
						&Op{K: "report", A: rep.Idx, Acc: a.Idx + 1, D: y.d, Cm: "fault-" + pre, Note: "colliding-id-2"}
				}
			}
		}
	}
	return nil, nil
}

func (g *Gen) genOp() *Op {
	r := g.r
	if g.nextOp != nil {
		op := g.nextOp
		g.nextOp = nil
		return op
	}
	if len(g.pendingOps) > 0 {
		op := g.pendingOps[0]
		g.pendingOps = g.pendingOps[1:]
		return op
	}
	kinds := make([]string, 0, len(g.p.W))
	for k := range g.p.W {
		kinds = append(kinds, k)
	}
	sort.Strings(kinds)
	ws := make([]float64, len(kinds))
	for i, k := range kinds {
		ws[i] = g.p.W[k]
	}
	for try := 0; try < 6; try++ {
		k := kinds[r.Pick(ws)]
		if op := g.genKind(k); op != nil {
			switch op.K {
			case "renew", "terminate", "complete", "store", "migrate", "cancel":
				if op.Tam == "" && r.Chance(0.06) {
					op.G = r.Range(1, 40_000) // runs out of gas shortly before the end of the handler
				}
			}
			return op
		}
	}
	return nil
}

func (g *Gen) gatewayFor() (*Actor, *Actor) {
	// returns (tx signer, node named as provider)
	gw := g.pickActor(g.e.W.Gateways)
	return gw, gw
}

func (g *Gen) genKind(k string) *Op {
	e, r, w := g.e, g.r, g.e.W
	s := e.Cur
	switch k {
	case "store_new":
		if lim := g.modelCap(); len(s.Model.Metas) >= lim {
			return nil
		}
		owner := g.pickActor(w.Owners)
		gw, _ := g.gatewayFor()
		if owner == nil || gw == nil {
			return nil
		}
		d := g.nextData
		g.nextData++
		if len(g.dead) > 0 && r.Chance(0.3) { // re-create a removed data id
			ks := make([]int, 0)
			for x := range g.dead {
				if _, ok := s.Model.Metas[e.data(x).DataId]; !ok {
					ks = append(ks, x)
				}
			}
			sort.Ints(ks)
			if len(ks) > 0 {
				d = ks[r.Intn(len(ks))]
				g.nextData--
				e.probe("recreate_data_id")
			}
		}
		op := &Op{K: "store", A: gw.Idx, Own: owner.Idx + 1, D: d, Mode: "new", Rep: int32(r.Range(1, 3)), Dur: g.drawDur(), Tmo: g.drawTmo(), Size: g.sizes()}
		if r.Chance(0.06) || (g.p.Crowd && r.Chance(0.4)) {
			op.Rep = int32(r.Range(4, 30))
			if len(w.SPs) >= 12 && r.Chance(0.6) || g.p.Crowd {
				// nearly as many replicas as there are eligible providers: the seeded selection has
				// to draw many times (and may use up its seed)
				need := nodetypes.NODE_STATUS_ONLINE | nodetypes.NODE_STATUS_SERVE_STORAGE | nodetypes.NODE_STATUS_ACCEPT_ORDER
				el := 0
				for _, k := range sortedKeys(s.Node.Pledges) {
					pl := s.Node.Pledges[k]
					if n, ok := s.Node.Nodes[k]; ok && n.Status&need == need && pl.TotalStorage-pl.UsedStorage >= 1000 {
						el++
					}
				}
				if el >= 10 {
					op.Rep = int32(el - r.Range(1, 2))
					op.Size = uint64(r.Range(1, 1000))
					e.probe("replicas_nearly_all_eligible_providers")
				}
			}
		}
		if len(w.Sponsors) > 0 && (r.Chance(0.15) || g.noPay[owner.Idx]) {
			if g.noPay[owner.Idx] {
				e.probe("store_for_owner_without_payment_address")
				if r.Chance(0.5) {
					op.Size = uint64(r.Range(1, 200)) // small enough for a termination refund of zero
				}
			}
			sp := g.pickActor(w.Sponsors)
			op.Pay = sp.Idx + 1
			op.A = sp.Idx
			op.Prov = gw.Idx + 1
			e.probe("sponsored_store")
		}
		if r.Chance(0.2) {
			op.L = []int{g.pickActor(w.Actors).Idx}
		}
		// two-step flow: an account bound to a sid DID submits its own signed proposal naming a
		// gateway; the order stays pending until that gateway sends Ready
		if op.Pay == 0 && r.Chance(0.3) {
			var sids []*Actor
			for _, a := range w.Actors {
				if did := e.sidCreatedBy(a); did != "" && s.Did.PayAddrs[did] != "" && e.sidOf(a) == did {
					sids = append(sids, a)
				}
			}
			if so := g.pickActor(sids); so != nil {
				op.A = so.Idx
				op.Own = so.Idx + 1
				op.Sid = true
				op.Prov = gw.Idx + 1
				op.PP = gw.Idx + 1
				e.probe("direct_store_by_sid_owner")
				// an account that used to be bound to this sid and has been removed from it gets hold of
				// the owner-signed request and submits it itself
				did := e.sidOf(so)
				var removed []*Actor
				for _, b := range w.Actors {
					if g.everSid[b.Idx] == did && b != so && !e.listedIn(b, did) {
						removed = append(removed, b)
					}
				}
				if b := g.pickActor(removed); b != nil && r.Chance(0.6) {
					op.A = b.Idx
					op.Note = "adv:removed-account-submits"
					e.probe("store_submitted_by_account_removed_from_sid")
				}
			}
		}
		g.dead[d] = true // candidates for re-creation once gone
		return op
	case "ready":
		for _, i := range r.Perm(len(e.Data)) {
			o, ok := e.orderOf(e.Data[i], 0)
			if !ok || o.Status != ordertypes.OrderPending {
				continue
			}
			gwA := w.ByAddr[o.Provider]
			if gwA == nil {
				continue
			}
			key := fmt.Sprintf("ready|%d", o.Id)
			if _, seen := g.silent[key]; !seen {
				g.silent[key] = r.Chance(0.25) // the gateway waits a while (or forever) before handing out
			}
			if g.silent[key] {
				if r.Chance(0.1) {
					delete(g.silent, key)
				}
				continue
			}
			op := &Op{K: "ready", A: gwA.Idx, D: i}
			if r.Chance(0.2) {
				// somebody else tries to hand the order out: its creator, a stranger, another node
				who := []*Actor{w.ByAddr[o.Creator], g.pickActor(w.Advs), g.pickActor(w.SPs)}[r.Intn(3)]
				if who != nil {
					op.A = who.Idx
					if r.Chance(0.5) {
						op.Prov = gwA.Idx + 1
					}
					op.Note = "adv:ready"
				}
			}
			return op
		}
		return nil
	case "store_update":
		ms := g.metas()
		if len(ms) == 0 {
			return nil
		}
		m := ms[r.Intn(len(ms))]
		meta := s.Model.Metas[m.id]
		gw, _ := g.gatewayFor()
		if gw == nil {
			return nil
		}
		op := &Op{K: "store", A: gw.Idx, D: m.d, Mode: "update", Rep: int32(r.Range(1, 3)), Dur: g.drawDur(), Tmo: g.drawTmo(), Size: g.sizes()}
		if r.Chance(0.25) {
			op.Mode = "force"
		}
		// signer: owner mostly, sometimes a read-write grantee
		if len(meta.ReadwriteDids) > 0 && r.Chance(0.4) {
			if a := w.ByDid[meta.ReadwriteDids[r.Intn(len(meta.ReadwriteDids))]]; a != nil {
				op.Own = a.Idx + 1
				e.probe("grantee_update")
			}
		}
		if r.Chance(0.15) {
			op.Base = []string{"stale", "empty", "prefix", "wrong", "nosep"}[r.Intn(5)]
		}
		return op
	case "complete":
		// choose an open shard whose provider is not silent for this attempt
		type cand struct {
			d  int
			sp *Actor
			o  uint64
		}
		var cs []cand
		for i, d := range e.Data {
			m, ok := s.Model.Metas[d.DataId]
			if !ok {
				continue
			}
			for _, oid := range append([]uint64{m.OrderId}, m.Orders...) {
				o, ok := s.Order.Orders[oid]
				if !ok {
					continue
				}
				for _, sid := range o.Shards {
					sh, ok := s.Order.Shards[sid]
					if !ok || (sh.Status != ordertypes.ShardWaiting && sh.Status != ordertypes.ShardMigrating) {
						continue
					}
					a := w.ByAddr[sh.Sp]
					if a == nil {
						continue
					}
					key := fmt.Sprintf("%s|%d|%d", sh.Sp, oid, sid)
					if _, seen := g.silent[key]; !seen {
						g.silent[key] = r.Chance(g.p.Silence)
						if g.silent[key] {
							e.fault("F4.provider_silent")
						}
					}
					if g.silent[key] {
						continue
					}
					cs = append(cs, cand{i, a, oid})
				}
			}
		}
		if r.Chance(0.08) {
			// a provider whose shard was already retired by the timeout scan reports it stored after all
			for _, i := range r.Perm(len(e.Data)) {
				m, ok := s.Model.Metas[e.Data[i].DataId]
				if !ok {
					continue
				}
				if o, ok := s.Order.Orders[m.OrderId]; ok {
					for _, sid := range o.Shards {
						if sh, ok := s.Order.Shards[sid]; ok && sh.Status == ordertypes.ShardTimeout {
							if a := w.ByAddr[sh.Sp]; a != nil {
								e.probe("late_complete_by_timed_out_provider")
								return &Op{K: "complete", A: a.Idx, D: i, Note: "late"}
							}
						}
					}
				}
			}
		}
		if len(cs) == 0 {
			return nil
		}
		c := cs[r.Intn(len(cs))]
		op := &Op{K: "complete", A: c.sp.Idx, D: c.d}
		// slot-based reference: survives re-selection of providers under shrinking
		for k := 1; k <= 12; k++ {
			if h := e.holderOf(e.Data[c.d], k, false); h == c.sp {
				op.Slot = k
				break
			}
		}
		if r.Chance(0.03) {
			op.N = int64(r.Range(-1, 1))
		}
		return op
	case "cancel":
		for _, i := range r.Perm(len(e.Data)) {
			d := e.Data[i]
			o, ok := e.orderOf(d, 0)
			if ok && o.Status != ordertypes.OrderCompleted {
				cr := w.ByAddr[o.Creator]
				if cr == nil {
					continue
				}
				e.probe("cancel_inflight")
				return &Op{K: "cancel", A: cr.Idx, D: i}
			}
		}
		return nil
	case "terminate":
		ms := g.metas()
		if len(ms) == 0 {
			return nil
		}
		m := ms[r.Intn(len(ms))]
		gw, _ := g.gatewayFor()
		if gw == nil {
			return nil
		}
		op := &Op{K: "terminate", A: gw.Idx, D: m.d}
		meta := s.Model.Metas[m.id]
		if len(meta.ReadwriteDids) > 0 && r.Chance(0.3) {
			if a := w.ByDid[meta.ReadwriteDids[0]]; a != nil {
				op.Own = a.Idx + 1
			}
		}
		return op
	case "renew":
		ms := g.metas()
		if len(ms) == 0 {
			return nil
		}
		m := ms[r.Intn(len(ms))]
		if r.Chance(0.5) {
			// several renewals in a row on the same model
			best := -1
			for _, x := range ms {
				if o, ok := s.Order.Orders[s.Model.Metas[x.id].OrderId]; ok && o.Operation == 3 {
					n := 0
					for _, sid := range o.Shards {
						if sh, ok := s.Order.Shards[sid]; ok {
							n += len(sh.RenewInfos)
						}
					}
					if n > best {
						best, m = n, x
					}
				}
			}
		}
		gw, _ := g.gatewayFor()
		if gw == nil {
			return nil
		}
		op := &Op{K: "renew", A: gw.Idx, Ds: []int{m.d}, Dur: g.drawDur(), Tmo: g.drawTmo()}
		// more data ids of the same owner
		owner := s.Model.Metas[m.id].Owner
		for _, x := range ms {
			if x.d != m.d && s.Model.Metas[x.id].Owner == owner && r.Chance(0.4) {
				op.Ds = append(op.Ds, x.d)
			}
		}
		return op
	case "migrate":
		// an SP with a completed shard
		for _, i := range r.Perm(len(e.Data)) {
			d := e.Data[i]
			m, ok := s.Model.Metas[d.DataId]
			if !ok {
				continue
			}
			o, ok := s.Order.Orders[m.OrderId]
			if !ok {
				continue
			}
			for _, sid := range o.Shards {
				sh, ok := s.Order.Shards[sid]
				if ok && sh.Status == ordertypes.ShardCompleted {
					if a := w.ByAddr[sh.Sp]; a != nil {
						op := &Op{K: "migrate", A: a.Idx, Ds: []int{i}}
						for k := 1; k <= 12; k++ {
							if h := e.holderOf(d, k, true); h == a {
								op.Slot = k
								break
							}
						}
						// a provider usually migrates several data ids in one message
						for j, d2 := range e.Data {
							if j == i || len(op.Ds) >= 5 || !r.Chance(0.6) {
								continue
							}
							for k := 1; k <= 6; k++ {
								if h := e.holderOf(d2, k, true); h == a {
									op.Ds = append(op.Ds, j)
									break
								} else if h == nil {
									break
								}
							}
						}
						if len(op.Ds) > 1 {
							e.probe("migrate_several_data_ids")
						}
						return op
					}
				}
			}
		}
		return nil
	case "perm":
		ms := g.metas()
		if len(ms) == 0 {
			return nil
		}
		m := ms[r.Intn(len(ms))]
		gw, _ := g.gatewayFor()
		if gw == nil {
			return nil
		}
		op := &Op{K: "perm", A: gw.Idx, D: m.d}
		pool := append(append([]*Actor{}, w.Owners...), w.Advs...)
		for _, a := range pool {
			if r.Chance(0.3) {
				op.L = append(op.L, a.Idx)
			} else if r.Chance(0.3) {
				op.L2 = append(op.L2, a.Idx)
			}
		}
		return op
	case "claim":
		a := g.pickActor(append(append([]*Actor{}, w.SPs...), w.Advs...))
		if a == nil {
			return nil
		}
		return &Op{K: "claim", A: a.Idx}
	case "add_vstorage":
		a := g.pickActor(append(append([]*Actor{}, w.SPs...), w.Gateways...))
		if a == nil {
			return nil
		}
		return &Op{K: "add_vstorage", A: a.Idx, N: g.vsize()}
	case "remove_vstorage":
		a := g.pickActor(w.SPs)
		if a == nil {
			return nil
		}
		n := g.vsize()
		if pl, ok := s.Node.Pledges[a.AddrS]; ok && r.Chance(0.5) {
			free := pl.TotalStorage - pl.UsedStorage
			n = free + int64(r.Range(-2, 2))
			if r.Chance(0.3) {
				n = pl.TotalStorage
			}
			if n <= 0 {
				n = 1_000_000
			}
		}
		return &Op{K: "remove_vstorage", A: a.Idx, N: n}
	case "node_reset":
		a := g.pickActor(append(append([]*Actor{}, w.SPs...), w.Gateways...))
		if a == nil {
			return nil
		}
		if r.Chance(0.08) {
			// an account without a node of its own (possibly listed as somebody's transaction address)
			if x := g.pickActor(w.Actors); x != nil {
				a = x
				e.probe("node_reset_by_arbitrary_account")
			}
		}
		st := fullStatus
		if r.Chance(0.35) {
			st = int64([]uint32{0, 1, 1 | 4, 1 | 4 | 8, 1 | 2 | 8, 4 | 8}[r.Intn(6)])
		}
		op := &Op{K: "node_reset", A: a.Idx, N: st}
		if len(w.Validators) > 0 && r.Chance(0.4) {
			op.V = w.Validators[r.Intn(len(w.Validators))].Idx + 1
			if r.Chance(0.12) {
				op.Mode = "upper"
				e.probe("validator_named_in_uppercase_bech32")
			}
		}
		if r.Chance(0.15) {
			op.L = []int{g.pickActor(w.Actors).Idx}
		}
		if r.Chance(0.35) {
			op.W = r.Range(1, 9) // carries a description
		}
		return op
	case "gov_param":
		// governance changes the node module's offline trigger while the chain runs
		if len(w.Validators) == 0 || g.proposals >= 2 {
			return nil
		}
		g.proposals++
		for _, v := range w.Validators {
			g.pendingOps = append(g.pendingOps, &Op{K: "gov_vote", A: v.Idx, N: int64(g.proposals)})
		}
		e.probe("parameter_change_proposal")
		return &Op{K: "gov_param", A: w.Validators[0].Idx, N: int64([]int{7, 40, 300, 1800, 100000}[r.Intn(5)])}
	case "node_create":
		a := g.pickActor(w.Actors)
		return &Op{K: "node_create", A: a.Idx}
	case "set_payaddr":
		a := g.pickActor(w.Actors)
		op := &Op{K: "set_payaddr", A: a.Idx}
		if r.Chance(0.4) {
			op.To = g.pickActor(w.Actors).Idx + 1
			op.N = int64(r.Intn(3))
			if r.Chance(0.35) {
				// somebody else's (or the own) key DID written as a DID URL
				op.Mode = []string{"frag", "query", "path"}[r.Intn(3)]
				op.N = 0
				e.probe("payaddr_with_did_url_spelling")
			}
		}
		return op
	case "report", "recover":
		if len(w.Fishmen) == 0 && !r.Chance(0.2) {
			return nil
		}
		var rep *Actor
		switch r.Pick([]float64{8, 1, 1}) {
		case 0:
			rep = g.pickActor(w.Fishmen)
		case 1:
			rep = g.pickActor(w.SPs)
		default:
			rep = g.pickActor(w.Owners)
		}
		if rep == nil {
			rep = g.pickActor(w.SPs)
		}
		if k == "report" && rep != nil && rep.Role == RoleFishman && r.Chance(0.3) {
			if a, b := g.collidingReports(rep); a != nil {
				g.nextOp = b
				e.probe("reports_with_colliding_id_text")
				return a
			}
		}
		// accused: holder of a completed shard
		for _, i := range r.Perm(len(e.Data)) {
			d := e.Data[i]
			m, ok := s.Model.Metas[d.DataId]
			if !ok {
				continue
			}
			o, ok := s.Order.Orders[m.OrderId]
			if !ok {
				continue
			}
			for _, si := range r.Perm(len(o.Shards)) {
				sid := o.Shards[si]
				sh, ok := s.Order.Shards[sid]
				if !ok {
					continue
				}
				a := w.ByAddr[sh.Sp]
				if a == nil {
					continue
				}
				if sh.Status != ordertypes.ShardCompleted {
					e.probe("report_names_shard_not_stored_yet")
				}
				op := &Op{K: k, A: rep.Idx, Acc: a.Idx + 1, D: i, N: int64(r.Intn(3))}
				if len(m.Orders) > 1 && r.Chance(0.3) {
					op.W = r.Range(1, len(m.Orders)) // names an earlier order of the model
					e.probe("report_names_earlier_order_of_model")
				}
				if k == "recover" && r.Chance(0.5) {
					op.A = a.Idx // the accused declares recovery itself
				}
				if r.Chance(0.25) {
					op.Mis = []string{"order", "data", "noshard", "commit", "shard", "provider", "xorder", "xorder"}[r.Intn(8)]
				}
				return op
			}
		}
		return nil
	case "send":
		a, b := g.pickActor(w.Actors), g.pickActor(w.Actors)
		if a == b {
			return nil
		}
		op := &Op{K: "send", A: a.Idx, To: b.Idx + 1, N: int64(r.Range(1, 5000))}
		if r.Chance(0.3) && (a.Role == RoleSP || a.Role == RoleOwner) {
			op.N = -int64(r.Range(0, 3000)) // drain: F12
			e.fault("F12.account_drained")
		}
		return op
	case "delegate":
		a := g.pickActor(append(append(append([]*Actor{}, w.SPs...), w.Gateways...), w.Delegators...))
		v := g.pickActor(w.Validators)
		if a == nil || v == nil {
			return nil
		}
		n := int64(r.Range(1, 600)) * 1_000_000
		if r.Chance(0.12) {
			n = 3_000_000_000_000 // more than anyone has: fails after the first staking hook
			e.probe("delegate_insufficient")
		}
		return &Op{K: "delegate", A: a.Idx, V: v.Idx + 1, N: n}
	case "undelegate":
		ks := sortedKeys(s.Stk.Dels)
		if len(ks) == 0 {
			return nil
		}
		d := s.Stk.Dels[ks[r.Intn(len(ks))]]
		a := w.ByAddr[d.DelegatorAddress]
		if a != nil && a == w.Validators[0] {
			return nil // the stub keeps one validator permanently bonded (an empty validator set halts Tendermint, not the app)
		}
		var v *Actor
		for _, x := range w.Validators {
			if x.ValAddr.String() == d.ValidatorAddress {
				v = x
			}
		}
		if a == nil || v == nil {
			return nil
		}
		op := &Op{K: "undelegate", A: a.Idx, V: v.Idx + 1, N: int64(r.Range(1, 300)) * 1_000_000}
		if r.Chance(0.3) {
			op.N = 0
		}
		return op
	case "redelegate":
		if len(w.Validators) < 2 {
			return nil
		}
		ks := sortedKeys(s.Stk.Dels)
		if len(ks) == 0 {
			return nil
		}
		d := s.Stk.Dels[ks[r.Intn(len(ks))]]
		a := w.ByAddr[d.DelegatorAddress]
		if a != nil && a == w.Validators[0] {
			return nil
		}
		var v, v2 *Actor
		for _, x := range w.Validators {
			if x.ValAddr.String() == d.ValidatorAddress {
				v = x
			} else if v2 == nil || r.Chance(0.5) {
				v2 = x
			}
		}
		if a == nil || v == nil || v2 == nil {
			return nil
		}
		return &Op{K: "redelegate", A: a.Idx, V: v.Idx + 1, V2: v2.Idx + 1, N: int64(r.Range(1, 300)) * 1_000_000}
	case "did_bind":
		pool := append(append(append([]*Actor{}, w.Owners...), w.Delegators...), w.Advs...)
		owner := g.pickActor(pool)
		if owner == nil {
			return nil
		}
		op := &Op{K: "did_bind", A: owner.Idx, N: -int64(r.Range(0, 120))}
		if e.sidOf(owner) != "" || r.Chance(0.3) {
			// bind a further account to an (existing) sid; submitter usually an already bound account
			acc := g.pickActor(w.Actors)
			op.Acc = acc.Idx + 1
			op.To = owner.Idx + 1
			if r.Chance(0.3) {
				op.A = acc.Idx // submitted by the new account itself (not bound yet)
			}
		}
		switch r.Pick([]float64{10, 1.5, 1.5, 1, 3, 3, 2, 2, 1.5, 2}) {
		case 9:
			// bind an account that already belongs to the sid a second time, under another account did
			var bound []*Actor
			for _, x := range w.Actors {
				if did := e.sidOf(owner); did != "" && e.sidOf(x) == did {
					bound = append(bound, x)
				}
			}
			if b := g.pickActor(bound); b != nil {
				op.Acc = b.Idx + 1
				op.To = owner.Idx + 1
				op.A = b.Idx
				op.Mis = "rebind"
				e.probe("bound_account_bound_again")
			}
		case 7:
			// the account's signature is over a text naming another DID (a signature it gave elsewhere)
			op.Mis = "msgdid"
			e.probe("binding_proof_signed_for_another_did")
		case 8:
			// ... or over a text dated long ago, with a fresh timestamp field next to it
			op.Mis = "msgts"
			e.probe("binding_proof_signed_long_ago")
		case 6:
			op.Mis = "eip155mixed"
			if r.Chance(0.5) {
				op.Acc = g.pickActor(w.Actors).Idx + 1
				op.To = owner.Idx + 1
			}
		case 1:
			op.Mis = "badsig"
		case 2:
			op.Mis = "otherkey"
		case 3:
			op.Mis = "wrongchain"
		case 4:
			op.Mis = "eip155"
			if r.Chance(0.3) {
				op.Acc = g.pickActor(w.Actors).Idx + 1
				op.To = owner.Idx + 1
			}
		case 5:
			// timestamps around the edge of the freshness window and clearly stale ones
			op.N = -int64([]int{880, 895, 899, 901, 905, 930, 2000, 90000}[r.Intn(8)])
			e.probe("proof_near_window_edge")
		}
		return op
	case "did_update":
		var cands []*Actor
		for _, a := range w.Actors {
			if e.sidOf(a) != "" {
				cands = append(cands, a)
			}
		}
		a := g.pickActor(cands)
		if a == nil {
			return nil
		}
		op := &Op{K: "did_update", A: a.Idx, To: a.Idx + 1, N: -int64(r.Range(0, 100))}
		did := e.sidOf(a)
		// remove one or two bound accounts (sometimes the payment account, which must be refused)
		for _, x := range w.Actors {
			if e.sidOf(x) == did && r.Chance(0.45) {
				op.L = append(op.L, x.Idx)
			}
		}
		if r.Chance(0.1) {
			op.A = g.pickActor(w.Actors).Idx
		}
		if r.Chance(0.15) {
			op.N = -int64([]int{895, 905, 5000}[r.Intn(3)])
		}
		if len(e.Cur.Did.AccountLists) > 1 && r.Chance(0.2) {
			// the lists of this update also name an account of a *different* DID
			op.Mis = []string{"foreign-remove", "foreign-update", "foreign-remove"}[r.Intn(3)]
			op.W = r.Range(0, 7)
			e.probe("did_update_names_foreign_account")
		}
		return op
	case "sid_payaddr":
		var cands []*Actor
		for _, a := range w.Actors {
			if e.sidOf(a) != "" {
				cands = append(cands, a)
			}
		}
		a := g.pickActor(cands)
		if a == nil {
			return nil
		}
		op := &Op{K: "sid_payaddr", A: a.Idx, To: a.Idx + 1}
		if r.Chance(0.6) {
			op.Acc = g.pickActor(w.Actors).Idx + 1
		}
		if r.Chance(0.15) {
			op.A = g.pickActor(w.Actors).Idx
		}
		return op
	case "adv":
		return g.genAdv()
	}
	return nil
}

func (g *Gen) modelCap() int {
	if g.p.Long {
		return 7
	}
	return 14
}

func (g *Gen) vsize() int64 {
	r := g.r
	switch r.Pick([]float64{4, 2, 1, 1}) {
	case 0:
		return int64(r.Range(1, 40)) * 1_000_000
	case 1:
		return int64(r.Range(1, 5))*1_000_000 + int64(r.Range(-1, 1))
	case 2:
		return int64(r.Range(1, 999_999))
	}
	return g.e.W.Cfg.Node.VstorageThreshold
}

func (g *Gen) drawDur() uint64 {
	r := g.r
	w := []float64{5, 3, 1}
	if g.p.Long {
		w = []float64{3, 3, 2} // more terms above the minimum, so that renewals are often shorter than the term they follow
	}
	switch r.Pick(w) {
	case 0:
		return 3600
	case 1:
		return uint64(3600 + r.Range(1, 900))
	}
	return uint64(r.Range(3600, 9000))
}

func (g *Gen) drawTmo() int32 {
	r := g.r
	if r.Chance(0.03) {
		return int32([]int{-1, -1000, 0, 1 << 30, 1800, 4000, 400, 1300}[r.Intn(8)])
	}
	return int32(r.Range(1, g.p.TmoMax))
}

// genAdv produces adversarial requests against other parties' objects.
func (g *Gen) genAdv() *Op {
	e, r, w := g.e, g.r, g.e.W
	s := e.Cur
	adv := g.pickActor(w.Advs)
	if adv == nil {
		return nil
	}
	ms := g.metas()
	pickMeta := func() (metaRef, bool) {
		if len(ms) == 0 {
			return metaRef{}, false
		}
		return ms[r.Intn(len(ms))], true
	}
	gw := g.pickActor(w.Gateways)
	relay := adv
	if gw != nil && r.Chance(0.5) {
		relay = gw
	}
	switch r.Intn(14) {
	case 13: // a sid owner's request forged with the key document of the attacker's own sid
		if e.sidCreatedBy(adv) == "" {
			return &Op{K: "did_bind", A: adv.Idx, N: -int64(r.Range(0, 120)), Note: "adv:own-sid"}
		}
		var victims []metaRef
		for _, m := range ms {
			if o := s.Model.Metas[m.id].Owner; strings.HasPrefix(o, "did:sid:") && o != e.sidCreatedBy(adv) {
				victims = append(victims, m)
			}
		}
		if len(victims) == 0 {
			return nil
		}
		m := victims[r.Intn(len(victims))]
		e.probe("request_forged_with_foreign_sid_document")
		switch r.Intn(4) {
		case 0:
			return &Op{K: "terminate", A: relay.Idx, Own: adv.Idx + 1, D: m.d, Tam: "sidforge", Note: "adv:sidforge"}
		case 1:
			return &Op{K: "perm", A: relay.Idx, Own: adv.Idx + 1, D: m.d, L2: []int{adv.Idx}, Tam: "sidforge", Note: "adv:sidforge"}
		case 2:
			return &Op{K: "renew", A: relay.Idx, Own: adv.Idx + 1, Ds: []int{m.d}, Dur: 3600, Tmo: 5, Tam: "sidforge", Note: "adv:sidforge"}
		}
		return &Op{K: "store", A: relay.Idx, Own: adv.Idx + 1, D: m.d, Mode: "update", Rep: 1, Dur: 3600, Tmo: g.drawTmo(), Size: g.sizes(), Tam: "sidforge", Note: "adv:sidforge"}
	case 0: // stranger-signed update with a commit id that embeds the data id
		m, ok := pickMeta()
		if !ok {
			return nil
		}
		return &Op{K: "store", A: relay.Idx, Own: adv.Idx + 1, D: m.d, Mode: "update", Base: "embed", Rep: 1, Dur: 3600, Tmo: g.drawTmo(), Size: g.sizes(), Note: "adv:embed"}
	case 1: // stranger-signed plain update / force push
		m, ok := pickMeta()
		if !ok {
			return nil
		}
		mode := "update"
		if r.Chance(0.4) {
			mode = "force"
		}
		return &Op{K: "store", A: relay.Idx, Own: adv.Idx + 1, D: m.d, Mode: mode, Rep: 1, Dur: 3600, Tmo: g.drawTmo(), Size: g.sizes(), Note: "adv:stranger-update"}
	case 2: // owner field names the victim, signature by the stranger
		m, ok := pickMeta()
		if !ok {
			return nil
		}
		k := []string{"store", "terminate", "renew", "perm"}[r.Intn(4)]
		op := &Op{K: k, A: relay.Idx, Own: adv.Idx + 1, D: m.d, Ds: []int{m.d}, Mode: "update", Rep: 1, Dur: 3600, Tmo: 5, Size: 1000, Tam: "ownerfield", L2: []int{adv.Idx}, Note: "adv:ownerfield"}
		return op
	case 3: // altered payload after signing, by the real owner's signature
		m, ok := pickMeta()
		if !ok {
			return nil
		}
		k := []string{"store", "terminate", "renew", "perm"}[r.Intn(4)]
		return &Op{K: k, A: relay.Idx, D: m.d, Ds: []int{m.d}, Mode: "update", Rep: 1, Dur: 3600, Tmo: 5, Size: 1000, Tam: []string{"payload", "sig"}[r.Intn(2)], L2: []int{adv.Idx}, Note: "adv:tamper"}
	case 4: // stranger terminate / renew / permission
		m, ok := pickMeta()
		if !ok {
			return nil
		}
		k := []string{"terminate", "renew", "perm"}[r.Intn(3)]
		return &Op{K: k, A: relay.Idx, Own: adv.Idx + 1, D: m.d, Ds: []int{m.d}, Dur: 3600, Tmo: 5, L2: []int{adv.Idx}, Note: "adv:stranger-" + k}
	case 5: // cancel someone else's in-flight order naming the attacker's own node
		for _, i := range r.Perm(len(e.Data)) {
			o, ok := e.orderOf(e.Data[i], 0)
			if ok && o.Status != ordertypes.OrderCompleted && o.Creator != adv.AddrS {
				return &Op{K: "cancel", A: adv.Idx, D: i, Note: "adv:cancel"}
			}
		}
		return nil
	case 6: // complete someone else's shard: claim to be the provider / name victim as provider
		for _, i := range r.Perm(len(e.Data)) {
			o, ok := e.orderOf(e.Data[i], 0)
			if !ok {
				continue
			}
			for _, sid := range o.Shards {
				sh, ok := s.Order.Shards[sid]
				if ok && sh.Status == ordertypes.ShardWaiting && sh.Sp != adv.AddrS {
					if v := w.ByAddr[sh.Sp]; v != nil {
						return &Op{K: "complete", A: adv.Idx, Prov: v.Idx + 1, D: i, Note: "adv:complete"}
					}
				}
			}
		}
		return nil
	case 7: // node-management messages cannot name another creator (signer = creator), so
		// try the provider-pair messages with a victim gateway as provider
		m, ok := pickMeta()
		if !ok || gw == nil {
			return nil
		}
		k := []string{"terminate", "renew", "perm", "migrate"}[r.Intn(4)]
		return &Op{K: k, A: adv.Idx, Prov: gw.Idx + 1, D: m.d, Ds: []int{m.d}, Dur: 3600, Tmo: 5, Note: "adv:provider-pair"}
	case 8: // owner-signed store relayed by someone who is not the named gateway
		owner := g.pickActor(w.Owners)
		if owner == nil || gw == nil {
			return nil
		}
		d := g.nextData
		g.nextData++
		if len(w.Delegators) > 0 && r.Chance(0.5) {
			// submitted by an account the attacker listed for its own node, claiming that node as provider
			a2 := g.pickActor(w.Delegators)
			return &Op{K: "store", A: a2.Idx, Prov: adv.Idx + 1, PP: gw.Idx + 1, Own: owner.Idx + 1, D: d, Mode: "new", Rep: 1, Dur: 3600, Tmo: g.drawTmo(), Size: g.sizes(), Note: "adv:relay-via-own-list"}
		}
		return &Op{K: "store", A: adv.Idx, Prov: adv.Idx + 1, PP: gw.Idx + 1, Own: owner.Idx + 1, D: d, Mode: "new", Rep: 1, Dur: 3600, Tmo: g.drawTmo(), Size: g.sizes(), Note: "adv:relay"}
	case 9: // sponsor charged without submitting
		sp := g.pickActor(w.Sponsors)
		if sp == nil {
			return nil
		}
		d := g.nextData
		g.nextData++
		if r.Chance(0.4) {
			// an owner-signed proposal naming the owner itself as payer, relayed by a stranger
			owner := g.pickActor(w.Owners)
			if owner != nil && gw != nil {
				return &Op{K: "store", A: adv.Idx, Prov: adv.Idx + 1, PP: gw.Idx + 1, Own: owner.Idx + 1, D: d, Mode: "new", Rep: 1, Dur: 3600, Tmo: g.drawTmo(), Size: g.sizes(), Pay: owner.Idx + 1, Note: "adv:self-sponsor-relay"}
			}
		}
		return &Op{K: "store", A: adv.Idx, Own: adv.Idx + 1, D: d, Mode: "new", Rep: 1, Dur: 3600, Tmo: g.drawTmo(), Size: g.sizes(), Pay: sp.Idx + 1, Note: "adv:sponsor"}
	case 10: // migrate someone else's shards
		v := g.pickActor(w.SPs)
		m, ok := pickMeta()
		if v == nil || !ok {
			return nil
		}
		return &Op{K: "migrate", A: adv.Idx, Prov: v.Idx + 1, Ds: []int{m.d}, Note: "adv:migrate"}
	case 12: // one signature, several models: the signer's own model first, somebody else's after it
		var own, foreign []metaRef
		for _, m := range ms {
			if e.actorOfDid(s.Model.Metas[m.id].Owner) == adv {
				own = append(own, m)
			} else if m.stat == 4 {
				foreign = append(foreign, m)
			}
		}
		if len(own) == 0 {
			// make the adversary a data owner first
			gw2 := g.pickActor(w.Gateways)
			if gw2 == nil {
				return nil
			}
			d := g.nextData
			g.nextData++
			return &Op{K: "store", A: gw2.Idx, Own: adv.Idx + 1, D: d, Mode: "new", Rep: 1, Dur: 3600, Tmo: g.drawTmo(), Size: g.sizes(), Note: "adv:own-model"}
		}
		if len(foreign) == 0 {
			return nil
		}
		o1, f1 := own[r.Intn(len(own))], foreign[r.Intn(len(foreign))]
		return &Op{K: "renew", A: relay.Idx, Own: adv.Idx + 1, Ds: []int{o1.d, f1.d}, Dur: 3600, Tmo: 5, Note: "adv:batch-renew"}
	case 11: // report faults without being a fishman
		v := g.pickActor(w.SPs)
		m, ok := pickMeta()
		if v == nil || !ok {
			return nil
		}
		return &Op{K: "report", A: adv.Idx, Acc: v.Idx + 1, D: m.d, Note: "adv:report"}
	}
	return nil
}
