package main

// oracle_inv.go: C13 referential integrity and C14 aggregate accounting, evaluated at
// block boundaries (after the end-blocker) on the observer.

import (
	"fmt"

	ordertypes "github.com/SaoNetwork/sao/x/order/types"
	sdk "github.com/cosmos/cosmos-sdk/types"
)

type invOracle struct {
	taint map[string]bool
	last  *Snap
}

// sameNodeAgg: the node store changes every block (reward accumulator); the aggregates
// C14 reads change only with pledges and pool totals.
func sameNodeAgg(a, b *NodePart) bool {
	if a == b {
		return true
	}
	if len(a.Pledges) != len(b.Pledges) || a.Pool.TotalStorage != b.Pool.TotalStorage || !a.Pool.TotalPledged.IsEqual(b.Pool.TotalPledged) {
		return false
	}
	for k, x := range a.Pledges {
		y, ok := b.Pledges[k]
		if !ok || x.UsedStorage != y.UsedStorage || x.TotalStorage != y.TotalStorage || !x.TotalShardPledged.IsEqual(y.TotalShardPledged) || !x.TotalStoragePledged.IsEqual(y.TotalStoragePledged) {
			return false
		}
	}
	return true
}

func newInvOracle() *invOracle { return &invOracle{taint: map[string]bool{}} }

func (o *invOracle) Name() string { return "inv" }
func (o *invOracle) End(e *Env)   {}

func (o *invOracle) once(e *Env, prop, sub, detail, obj, msg string) {
	key := sub + "|" + obj
	if o.taint[key] {
		return
	}
	o.taint[key] = true
	e.Violate(prop, sub, "block", detail, msg)
}

func (o *invOracle) Step(e *Env, si *StepInfo) {
	if si.Kind != "end" {
		return
	}
	s := si.Cur
	if p := o.last; p != nil && s.Order == p.Order && s.Model == p.Model && s.Sao == p.Sao && s.Market == p.Market && sameNodeAgg(s.Node, p.Node) {
		return
	}
	o.last = s
	o.c13(e, s)
	o.c14(e, s)
}

func (o *invOracle) c13(e *Env, s *Snap) {
	// a: every shard an order lists exists
	for _, id := range orderIDs(s.Order) {
		ord := s.Order.Orders[id]
		for _, sid := range ord.Shards {
			if _, ok := s.Order.Shards[sid]; !ok {
				o.once(e, "C13", "C13.a", "order-lists-missing-shard", fmt.Sprint("o", id, "s", sid),
					fmt.Sprintf("order %d (status %d, op %d, data %s) lists shard %d which does not exist", id, ord.Status, ord.Operation, ord.DataId, sid))
			}
		}
	}
	// b: every shard's order exists and lists it
	for _, sid := range shardIDs(s.Order) {
		sh := s.Order.Shards[sid]
		ord, ok := s.Order.Orders[sh.OrderId]
		if !ok {
			o.once(e, "C13", "C13.b", "shard-names-missing-order", fmt.Sprint("s", sid),
				fmt.Sprintf("shard %d (status %d, sp %s) names order %d which does not exist", sid, sh.Status, short(sh.Sp), sh.OrderId))
			continue
		}
		listed := false
		for _, x := range ord.Shards {
			if x == sid {
				listed = true
			}
		}
		if !listed {
			o.once(e, "C13", "C13.b", "shard-not-listed-by-order", fmt.Sprint("s", sid),
				fmt.Sprintf("shard %d (status %d) names order %d which does not list it (lists %v)", sid, sh.Status, sh.OrderId, ord.Shards))
		}
		// c: completed shard scheduled at createdAt+duration
		if sh.Status == ordertypes.ShardCompleted {
			at := sh.CreatedAt + sh.Duration
			found := false
			for _, x := range s.Sao.Expired[at] {
				if x == sid {
					found = true
				}
			}
			if !found {
				o.once(e, "C13", "C13.c", "completed-shard-not-scheduled", fmt.Sprint("s", sid),
					fmt.Sprintf("completed shard %d (order %d, created %d, duration %d) has no release scheduled at height %d", sid, sh.OrderId, sh.CreatedAt, sh.Duration, at))
			}
		}
	}
	// d: metadata <-> alias entry
	back := map[string]int{}
	for _, k := range sortedKeys(s.Model.Models) {
		did := s.Model.Models[k]
		back[did]++
		m, ok := s.Model.Metas[did]
		if !ok {
			o.once(e, "C13", "C13.d", "alias-points-at-missing-metadata", "k"+k, fmt.Sprintf("alias entry %q points at data id %s which has no metadata", k, did))
			continue
		}
		// (how the entry's key is spelled is the implementation's business; the property asks for
		// exactly one entry per model, pointing back at it)
		_ = m
	}
	for _, did := range sortedKeys(s.Model.Metas) {
		if back[did] != 1 {
			o.once(e, "C13", "C13.d", "metadata-alias-count", "m"+did, fmt.Sprintf("metadata %s has %d alias entries pointing at it, want exactly 1", did, back[did]))
		}
	}
}

func (o *invOracle) c14(e *Env, s *Snap) {
	type agg struct {
		size   uint64
		rate   sdk.Dec
		pledge sdk.Int
	}
	per := map[string]*agg{}
	get := func(sp string) *agg {
		a, ok := per[sp]
		if !ok {
			a = &agg{rate: sdk.ZeroDec(), pledge: sdk.ZeroInt()}
			per[sp] = a
		}
		return a
	}
	for _, sid := range shardIDs(s.Order) {
		sh := s.Order.Shards[sid]
		if sh.Status != ordertypes.ShardCompleted {
			continue
		}
		a := get(sh.Sp)
		a.size += sh.Size_
		a.pledge = a.pledge.Add(sh.Pledge.Amount)
		if ord, ok := s.Order.Orders[sh.OrderId]; ok && !ord.UnitPrice.Amount.IsNil() {
			a.rate = a.rate.Add(ord.UnitPrice.Amount.MulInt64(int64(sh.Size_)))
		} else {
			a.rate = a.rate.Add(sdk.NewDecWithPrec(1, 6).MulInt64(int64(sh.Size_)))
		}
	}
	totStorage := int64(0)
	totPledged := sdk.ZeroInt()
	for _, sp := range sortedKeys(s.Node.Pledges) {
		pl := s.Node.Pledges[sp]
		a := get(sp)
		totStorage += pl.TotalStorage
		totPledged = totPledged.Add(pl.TotalStoragePledged.Amount)
		if pl.UsedStorage != int64(a.size) {
			o.once(e, "C14", "C14.used", "used-capacity-vs-shards", sp, fmt.Sprintf("provider %s: used capacity %d but completed shards total %d bytes", short(sp), pl.UsedStorage, a.size))
		}
		if !pl.TotalShardPledged.Amount.Equal(a.pledge) {
			o.once(e, "C14", "C14.shardpledge", "shard-collateral-vs-shards", sp, fmt.Sprintf("provider %s: total shard collateral %s but shards carry %s", short(sp), pl.TotalShardPledged.Amount, a.pledge))
		}
	}
	for sp, a := range per {
		if _, ok := s.Node.Pledges[sp]; !ok && a.size > 0 {
			o.once(e, "C14", "C14.used", "shards-without-pledge", sp, fmt.Sprintf("provider %s stores %d bytes without a pledge record", short(sp), a.size))
		}
	}
	for _, wn := range sortedKeys(s.Market.Workers) {
		wk := s.Market.Workers[wn]
		sp := wn
		if len(wn) > len(Denom)+1 {
			sp = wn[len(Denom)+1:]
		}
		a := get(sp)
		if wk.Storage != a.size {
			o.once(e, "C14", "C14.worker", "worker-storage-vs-shards", sp, fmt.Sprintf("provider %s: market account stores %d bytes but completed shards total %d", short(sp), wk.Storage, a.size))
		}
		if !wk.IncomePerSecond.Amount.Equal(a.rate) {
			o.once(e, "C14", "C14.rate", "worker-rate-vs-shards", sp, fmt.Sprintf("provider %s: income rate %s but shards sum to %s", short(sp), wk.IncomePerSecond.Amount, a.rate))
		}
	}
	for sp, a := range per {
		if _, ok := s.Market.Workers[Denom+"-"+sp]; !ok && a.size > 0 {
			o.once(e, "C14", "C14.worker", "shards-without-worker", sp, fmt.Sprintf("provider %s stores %d bytes without a market account", short(sp), a.size))
		}
	}
	if s.Node.HasPool {
		if s.Node.Pool.TotalStorage != totStorage {
			o.once(e, "C14", "C14.pool", "pool-storage-vs-providers", "pool", fmt.Sprintf("network pledged capacity %d but providers sum to %d", s.Node.Pool.TotalStorage, totStorage))
		}
		if !s.Node.Pool.TotalPledged.Amount.Equal(totPledged) {
			o.once(e, "C14", "C14.pool", "pool-pledged-vs-providers", "pool", fmt.Sprintf("network pledged coins %s but providers' capacity pledges sum to %s", s.Node.Pool.TotalPledged.Amount, totPledged))
		}
	}
}
