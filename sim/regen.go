package main

// regen.go: C18 — export at an arbitrary reachable state, re-genesis on a fresh app,
// raw comparison of the six custom stores and lock-step continuation on a shadow replica.

import (
	"encoding/json"
	"fmt"
	"github.com/SaoNetwork/sao/verifrt"
	"sort"

	saoapp "github.com/SaoNetwork/sao/app"
	abci "github.com/tendermint/tendermint/abci/types"
	tmtypes "github.com/tendermint/tendermint/types"
)

type shadow struct {
	r       *Replica
	left    int
	since   int64
	dead    bool
	ignore  map[string]bool
	globals map[string]any // the shadow process's package-level variables
}

func describeKey(store, k string) string {
	// render binary key suffixes readably
	out := make([]byte, 0, len(k))
	for i := 0; i < len(k); i++ {
		c := k[i]
		if c >= 32 && c < 127 {
			out = append(out, c)
		} else {
			out = append(out, []byte(fmt.Sprintf("\\x%02x", c))...)
		}
	}
	return store + ":" + string(out)
}

func keyClass(k string) string {
	for i := 0; i < len(k); i++ {
		if k[i] == '/' {
			for j := i + 1; j < len(k); j++ {
				if k[j] == '/' {
					return k[:j+1]
				}
			}
			return k[:i+1]
		}
	}
	return k
}

// compareCustom compares the raw content of the six custom stores of two replicas and
// returns, per differing key class, one example message. A missing super-node cursor is
// the same observable state as a cursor of zero (it is created lazily with zero).
func compareCustom(a, b map[string]map[string]string, ignore map[string]bool) map[string]string {
	out := map[string]string{}
	for _, st := range customStores {
		ks := map[string]bool{}
		for k := range a[st] {
			ks[k] = true
		}
		for k := range b[st] {
			ks[k] = true
		}
		keys := make([]string, 0, len(ks))
		for k := range ks {
			keys = append(keys, k)
		}
		sort.Strings(keys)
		for _, k := range keys {
			va, oka := a[st][k]
			vb, okb := b[st][k]
			cls := st + ":" + keyClass(k)
			if ignore[cls] {
				continue
			}
			if _, seen := out[cls]; seen {
				continue
			}
			if cls == "order:Order/count/" || cls == "order:Shard/count/" {
				// an unset counter reads as its default (orders start at 1, shards at 0)
				def := "\x00\x00\x00\x00\x00\x00\x00\x00"
				if cls == "order:Order/count/" {
					def = "\x00\x00\x00\x00\x00\x00\x00\x01"
				}
				if !oka || va == "\x00\x00\x00\x00\x00\x00\x00\x00" {
					va = def
				}
				if !okb || vb == "\x00\x00\x00\x00\x00\x00\x00\x00" {
					vb = def
				}
				if va == vb {
					continue
				}
			}
			if cls == "node:NodeRound/value/" {
				if !oka {
					va = "\x00"
				}
				if !okb {
					vb = "\x00"
				}
				if va == vb {
					continue
				}
				out[cls] = fmt.Sprintf("super-node round-robin cursor is %d on the original chain and %d after re-genesis", va[0], vb[0])
				continue
			}
			switch {
			case oka && !okb:
				out[cls] = fmt.Sprintf("record %s exists on the original chain but not after re-genesis", describeKey(st, k))
			case !oka && okb:
				out[cls] = fmt.Sprintf("record %s exists after re-genesis but not on the original chain", describeKey(st, k))
			case va != vb:
				out[cls] = fmt.Sprintf("record %s differs between the original chain and the re-initialised one", describeKey(st, k))
			}
		}
	}
	return out
}

// Regen performs export -> validate -> InitChain on a fresh app -> compare, and installs
// the fresh app as a shadow that receives the same blocks for a while.
func (e *Env) Regen(follow int) {
	if e.Dead || e.Shadow != nil {
		return
	}
	e.fault("F13.export_regenesis")
	exp, err := e.R.App.ExportAppStateAndValidators(false, nil)
	if err != nil {
		e.Violate("C18", "C18.validate", "regen", "export-failed", "export failed: "+err.Error())
		return
	}
	var gs saoapp.GenesisState
	if err := json.Unmarshal(exp.AppState, &gs); err != nil {
		e.Violate("C18", "C18.validate", "regen", "export-not-json", "exported state is not valid JSON: "+err.Error())
		return
	}
	if err := saoapp.ModuleBasics.ValidateGenesis(encCfg.Marshaler, encCfg.TxConfig, gs); err != nil {
		e.Violate("C18", "C18.validate", "regen", "export-does-not-validate", "exported genesis fails validation: "+trunc(err.Error(), 200))
		return
	}
	// the re-initialised chain is a new process: it starts with fresh package-level variables and
	// keeps its own copy of them from here on
	obsGlobals := verifrt.SaveGlobals()
	verifrt.ResetGlobals()
	var shadowGlobals map[string]any
	defer func() {
		if e.Shadow != nil {
			e.Shadow.globals = shadowGlobals
		}
		verifrt.LoadGlobals(obsGlobals)
	}()
	b := NewReplica("regen")
	b.FuelBudget = e.R.FuelBudget
	var vals []abci.ValidatorUpdate
	for _, v := range exp.Validators {
		pk, err := tmtypes.TM2PB.ValidatorUpdate(&tmtypes.Validator{PubKey: v.PubKey, VotingPower: v.Power}), error(nil)
		_ = err
		vals = append(vals, pk)
	}
	var res abci.ResponseInitChain
	pi := b.guarded("InitChain", func() {
		res = b.App.InitChain(abci.RequestInitChain{
			Time:            e.Seq.Time,
			ChainId:         ChainID,
			ConsensusParams: exp.ConsensusParams,
			AppStateBytes:   exp.AppState,
			InitialHeight:   exp.Height,
			Validators:      vals,
		})
	})
	if pi != nil {
		b.Close()
		if pi.Fuel {
			e.Violate("C02", "C02.fuel", "InitChain", pi.Site, "re-genesis from an exported state never terminates at "+pi.Site)
		} else {
			e.Violate("C02", "C02.panic", "InitChain", firstFrame(pi.Stack)+":"+panicClass(pi.Value), fmt.Sprintf("InitChain from the state exported at height %d panics: %s (frames: %s)", exp.Height-1, pi.Value, pi.Stack))
			e.Violate("C18", "C18.validate", "regen", "initchain-panics", fmt.Sprintf("InitChain from the state exported at height %d panics: %s", exp.Height-1, trunc(pi.Value, 160)))
		}
		return
	}
	_ = res
	shadowGlobals = verifrt.SaveGlobals()
	// compare raw custom stores and module balances
	actx := e.R.CommittedCtx(e.headerNow())
	bctx := b.App.BaseApp.NewContext(false, e.headerNow())
	ra, rb := e.R.RawDump(actx, customStores), b.RawDump(bctx, customStores)
	base := compareCustom(ra, rb, nil)
	baseIgnore := map[string]bool{}
	for _, cls := range sortedKeys(base) {
		baseIgnore[cls] = true
		e.Violate("C18", "C18.state", "regen", cls, fmt.Sprintf("export at height %d + re-genesis: %s", exp.Height-1, base[cls]))
	}
	sa := e.R.TakeSnapFull(actx, e.W)
	sb := b.TakeSnapFull(bctx, e.W)
	for _, m := range []string{"order", "market", "node", "did"} {
		if !sa.Bank.Bal[modAddr(m)].Equal(sb.Bank.Bal[modAddr(m)]) {
			e.Violate("C18", "C18.state", "regen", "module-balance:"+m, fmt.Sprintf("module account %s holds %s on the original chain and %s after re-genesis", m, sa.Bank.Bal[modAddr(m)], sb.Bank.Bal[modAddr(m)]))
		}
	}
	e.probe("regenesis_done")
	if len(e.Cur.Node.Faults) > 0 {
		e.probe("regenesis_with_open_faults")
	}
	if e.Cur.Node.Round > 0 {
		e.probe("regenesis_with_nonzero_round")
	}
	if len(base) > 0 {
		// the states already differ: a lock-step continuation would only restate that
		b.Close()
		return
	}
	e.Shadow = &shadow{r: b, left: follow, since: exp.Height, ignore: baseIgnore}
}

func firstFrame(s string) string {
	for i := 0; i+3 <= len(s); i++ {
		if s[i:i+3] == " < " {
			return s[:i]
		}
	}
	return s
}

// TakeSnapFull reads everything regardless of dirty flags, without touching the cache.
func (r *Replica) TakeSnapFull(ctx sdkContext, w *World) *Snap {
	saveHash := r.lastHash
	r.lastHash = map[string]uint64{}
	s := r.TakeSnap(ctx, w, nil, nil)
	r.lastHash = saveHash
	return s
}

// shadowBlock feeds the block just executed on the observer to the shadow and compares.
func (e *Env) shadowBlock(b *Block, codes []uint32) {
	sh := e.Shadow
	if sh == nil || sh.dead {
		return
	}
	obsGlobals := verifrt.SaveGlobals()
	verifrt.LoadGlobals(sh.globals)
	defer func() {
		sh.globals = verifrt.SaveGlobals()
		verifrt.LoadGlobals(obsGlobals)
	}()
	fail := func(where string, pi *PanicInfo) {
		sh.dead = true
		e.Violate("C18", "C18.cont", "regen", "shadow-panic:"+where, fmt.Sprintf("the re-initialised chain panics in %s at height %d where the original does not: %s (%s)", where, b.Height, pi.Value, pi.Stack))
	}
	if _, pi := sh.r.BeginBlock(b); pi != nil {
		fail("BeginBlock", pi)
		return
	}
	for i, tx := range b.Txs {
		res, pi := sh.r.DeliverTx(tx)
		if pi != nil {
			fail("DeliverTx", pi)
			return
		}
		if i < len(codes) && res.Code != codes[i] {
			sh.dead = true
			e.Violate("C18", "C18.cont", "regen", "tx-result:"+msgTypeOfTx(tx), fmt.Sprintf("height %d tx %d (%s): original chain returned code %d, re-initialised chain code %d (%s)", b.Height, i, msgTypeOfTx(tx), codes[i], res.Code, trunc(res.Log, 140)))
			return
		}
	}
	if _, pi := sh.r.EndBlock(b); pi != nil {
		fail("EndBlock", pi)
		return
	}
	actx := e.R.DeliverCtx(b)
	bctx := sh.r.DeliverCtx(b)
	ra, rb := e.R.RawDump(actx, customStores), sh.r.RawDump(bctx, customStores)
	// differences that already existed right after re-genesis are C18.state findings; only new ones count here
	diff := compareCustom(ra, rb, sh.ignore)
	for _, cls := range sortedKeys(diff) {
		sh.dead = true
		e.Violate("C18", "C18.cont", "regen", cls, fmt.Sprintf("%d blocks after re-genesis (height %d): %s", b.Height-sh.since+1, b.Height, diff[cls]))
	}
	if _, pi := sh.r.Commit(); pi != nil {
		fail("Commit", pi)
		return
	}
	sh.left--
	if sh.left <= 0 || sh.dead {
		sh.r.Close()
		e.Shadow = nil
	}
}
