package main

// env.go: executes a trace on the observer replica, observes every step, feeds oracles.

import (
	"crypto/sha256"
	"encoding/hex"
	"fmt"
	"hash"
	"os"
	"sort"
	"strings"
	"time"

	"github.com/SaoNetwork/sao/verifrt"
	sdk "github.com/cosmos/cosmos-sdk/types"
	authtypes "github.com/cosmos/cosmos-sdk/x/auth/types"
	abci "github.com/tendermint/tendermint/abci/types"
)

// Step is one element of the materialised trace.
type Step struct {
	Idle   int   `json:"idle,omitempty"` // run this many empty blocks
	Dt     int   `json:"dt,omitempty"`   // seconds since previous block (block step)
	Ops    []Op  `json:"ops,omitempty"`
	Absent []int `json:"absent,omitempty"` // validator indices that do not sign the previous block
	Regen  bool  `json:"regen,omitempty"`  // export + re-genesis on a fresh app (F13)
}

type Trace struct {
	Version int    `json:"version"`
	Cfg     Config `json:"config"`
	Steps   []Step `json:"steps"`
}

// Edge is one bank transfer parsed from events.
type Edge struct {
	From, To string
	Amt      sdk.Int
}

// StepInfo is what oracles see for each observed step.
type StepInfo struct {
	Seq     int
	Kind    string // begin | tx | end | init
	Height  int64
	Op      *Op
	Built   *Built
	Res     *abci.ResponseDeliverTx
	OK      bool
	Events  []abci.Event
	Edges   []Edge
	Minted  map[string]sdk.Int // minter address -> amount
	Burned  map[string]sdk.Int
	Prev    *Snap
	Cur     *Snap
	TxBytes []byte
}

type Violation struct {
	Prop   string `json:"property"`
	Sub    string `json:"sub"`
	Step   string `json:"step"`
	Detail string `json:"detail"`
	Msg    string `json:"msg"`
	Height int64  `json:"height"`
	SeqNo  int    `json:"seq"`
	StepIx int    `json:"step_index"`
}

func (v Violation) Sig() string { return v.Sub + "|" + v.Step + "|" + v.Detail }

type Oracle interface {
	Name() string
	Step(e *Env, si *StepInfo)
	End(e *Env)
}

// Stats are reach counters.
type Stats struct {
	Blocks     int64            `json:"blocks"`
	SimSeconds int64            `json:"sim_seconds"`
	Txs        map[string]int64 `json:"txs"`    // kind:ok / kind:fail
	Faults     map[string]int64 `json:"faults"` // fault kind -> fired
	Probes     map[string]int64 `json:"probes"`
	States     map[string]bool  `json:"-"`
	Pairs      map[string]bool  `json:"-"`
	Unresolved int64            `json:"unresolved"`
}

func newStats() *Stats {
	return &Stats{Txs: map[string]int64{}, Faults: map[string]int64{}, Probes: map[string]int64{}, States: map[string]bool{}, Pairs: map[string]bool{}}
}

// Env is one run of the observer.
type Env struct {
	W               *World
	R               *Replica
	Seq             *Sequencer
	Cur             *Snap
	Data            []*DataInfo
	Blk             *Block
	Blocks          []*Block // committed block stream (for replicas)
	Resps           []*BlockResp
	Oracles         []Oracle
	Viol            []Violation
	Stats           *Stats
	Known           *KnownFindings
	KnownHits       map[string]int
	seqNo           int
	stepIx          int
	digest          hash.Hash
	seqCache        map[string]uint64 // per-block next sequence numbers
	Dead            bool              // chain halted (panic escaped a consensus call)
	Genesis         []byte
	lastOp          map[string]string // object -> last op kind (interleaving measure)
	StopOnViolation bool
	WantProps       map[string]bool
	KeepBlocks      bool
	extraAddrs      []string
	Log             []string
	Verbose         bool
	T0              time.Time
	T               *Track
	Shadow          *shadow
	OnlyReplica     string
	Thorough        bool
}

// BlockResp records the observer's responses for cross-replica comparison.
type BlockResp struct {
	Begin  string
	Txs    []string
	End    string
	Commit string
}

func init() { verifrt.StackFn = repoFrames }

func NewEnv(cfg Config) *Env {
	w := NewWorld(cfg)
	e := &Env{W: w, Stats: newStats(), digest: sha256.New(), seqCache: map[string]uint64{}, lastOp: map[string]string{}, KnownHits: map[string]int{}}
	return e
}

func (e *Env) Close() {
	if e.Shadow != nil {
		e.Shadow.r.Close()
	}
	if e.R != nil {
		e.R.Close()
	}
}

func (e *Env) logf(f string, a ...interface{}) {
	if e.Verbose {
		e.Log = append(e.Log, fmt.Sprintf(f, a...))
	}
}

// Violate records a violation unless the object is tainted or a known finding matches.
func (e *Env) Violate(prop, sub, step, detail, msg string) {
	if e.WantProps != nil && !e.WantProps[prop] {
		return
	}
	v := Violation{Prop: prop, Sub: sub, Step: step, Detail: detail, Msg: msg, Height: e.height(), SeqNo: e.seqNo, StepIx: e.stepIx}
	if e.Known != nil {
		if k := e.Known.Match(v); k != "" {
			e.KnownHits[k]++
			return
		}
	}
	for _, x := range e.Viol {
		if x.Sig() == v.Sig() {
			return
		}
	}
	e.Viol = append(e.Viol, v)
}

func (e *Env) height() int64 {
	if e.Blk != nil {
		return e.Blk.Height
	}
	if e.Seq != nil {
		return e.Seq.Height
	}
	return 0
}

func (e *Env) probe(name string) { e.Stats.Probes[name]++ }
func (e *Env) fault(name string) { e.Stats.Faults[name]++ }

// Init boots the observer from genesis.
func (e *Env) Init() *PanicInfo {
	verifrt.ResetGlobals()
	e.R = NewReplica("R0")
	e.Genesis = e.W.Genesis()
	seq, pi := e.R.InitChain(e.Genesis, 1, genesisTime)
	if pi != nil {
		return pi
	}
	e.Seq = seq
	e.observerClock()
	// After InitChain the genesis state lives in the deliver state (no Commit yet, as in Tendermint).
	ctx := e.R.App.BaseApp.NewContext(false, e.headerNow())
	e.R.ClearDirty()
	e.Cur = e.R.TakeSnap(ctx, e.W, nil, e.extraAddrs)
	return nil
}

func (e *Env) headerNow() (h tmHeader) {
	return tmHeader{ChainID: ChainID, Height: e.Seq.Height, Time: e.Seq.Time}
}

func hashEvents(evs []abci.Event) string {
	h := sha256.New()
	for _, ev := range evs {
		h.Write([]byte(ev.Type))
		for _, a := range ev.Attributes {
			h.Write(a.Key)
			h.Write([]byte{0})
			h.Write(a.Value)
			h.Write([]byte{1})
		}
		h.Write([]byte{2})
	}
	return hex.EncodeToString(h.Sum(nil)[:12])
}

func txRespDigest(r *abci.ResponseDeliverTx) string {
	return fmt.Sprintf("%d|%s|%x|%d|%d|%s", r.Code, r.Codespace, sha256.Sum256(r.Data), r.GasWanted, r.GasUsed, hashEvents(r.Events))
}

func endRespDigest(r *abci.ResponseEndBlock) string {
	s := hashEvents(r.Events)
	for _, u := range r.ValidatorUpdates {
		s += fmt.Sprintf("|%x:%d", u.PubKey.GetEd25519(), u.Power)
	}
	if r.ConsensusParamUpdates != nil {
		s += "|cpu"
	}
	return s
}

// parseBank extracts transfer edges, mints and burns from events.
func parseBank(evs []abci.Event) (edges []Edge, minted, burned map[string]sdk.Int) {
	minted, burned = map[string]sdk.Int{}, map[string]sdk.Int{}
	amt := func(s string) sdk.Int {
		cs, err := sdk.ParseCoinsNormalized(s)
		if err != nil {
			return sdk.ZeroInt()
		}
		return cs.AmountOf(Denom)
	}
	for _, ev := range evs {
		at := map[string]string{}
		for _, a := range ev.Attributes {
			at[string(a.Key)] = string(a.Value)
		}
		switch ev.Type {
		case "transfer":
			edges = append(edges, Edge{From: at["sender"], To: at["recipient"], Amt: amt(at["amount"])})
		case "coinbase":
			m := at["minter"]
			if x, ok := minted[m]; ok {
				minted[m] = x.Add(amt(at["amount"]))
			} else {
				minted[m] = amt(at["amount"])
			}
		case "burn":
			m := at["burner"]
			if x, ok := burned[m]; ok {
				burned[m] = x.Add(amt(at["amount"]))
			} else {
				burned[m] = amt(at["amount"])
			}
		}
	}
	return
}

// observe snapshots the deliver state and runs the oracles for one step.
func (e *Env) observe(kind string, op *Op, built *Built, res *abci.ResponseDeliverTx, evs []abci.Event, txb []byte) *StepInfo {
	e.seqNo++
	prev := e.Cur
	ctx := e.R.DeliverCtx(e.Blk)
	if kind != "tx" {
		// Writes of begin/end blockers sit in the deliver state's cache layer and reach the
		// write listeners only at Commit, so these steps re-read every watched store.
		for _, n := range watchedStores {
			e.R.Dirty[n] = true
		}
	}
	cur := e.R.TakeSnap(ctx, e.W, prev, e.extraAddrs)
	e.R.ClearDirty()
	e.Cur = cur
	si := &StepInfo{Seq: e.seqNo, Kind: kind, Height: e.Blk.Height, Op: op, Built: built, Res: res, Events: evs, Prev: prev, Cur: cur, TxBytes: txb}
	si.OK = res == nil || res.Code == 0
	si.Edges, si.Minted, si.Burned = parseBank(evs)
	if wd := os.Getenv("VERIF_WATCH_DATA"); wd != "" && e.Verbose && (prev.Order != cur.Order || prev.Model != cur.Model) {
		desc := func(s *Snap) string {
			out := ""
			if m, ok := s.Model.Metas[wd]; ok {
				out += fmt.Sprintf("meta{st=%d order=%d orders=%v created=%d dur=%d commits=%d} ", m.Status, m.OrderId, m.Orders, m.CreatedAt, m.Duration, len(m.Commits))
			} else {
				out += "meta{absent} "
			}
			for _, id := range orderIDs(s.Order) {
				o := s.Order.Orders[id]
				if o.DataId == wd {
					out += fmt.Sprintf("O%d{st=%d op=%d rep=%d shards=%v dur=%d} ", id, o.Status, o.Operation, o.Replica, o.Shards, o.Duration)
					for _, sid := range o.Shards {
						if sh, ok := s.Order.Shards[sid]; ok {
							out += fmt.Sprintf("S%d{st=%d o=%d c=%d d=%d r=%d} ", sid, sh.Status, sh.OrderId, sh.CreatedAt, sh.Duration, len(sh.RenewInfos))
						}
					}
				}
			}
			for h, ds := range s.Model.Expired {
				for _, d := range ds {
					if d == wd {
						out += fmt.Sprintf("expiry@%d ", h)
					}
				}
			}
			return out
		}
		a, b := desc(prev), desc(cur)
		if a != b {
			e.logf("WATCH h=%d %s: %s", si.Height, kind, b)
		}
	}
	if e.Verbose && len(si.Edges) > 0 && kind != "tx" {
		for _, ed := range si.Edges {
			e.logf("h=%d %s edge %s -> %s : %s", si.Height, kind, fmtAddr(ed.From), fmtAddr(ed.To), ed.Amt)
		}
	}
	for _, o := range e.Oracles {
		o.Step(e, si)
	}
	return si
}

func (e *Env) onPanic(pi *PanicInfo) {
	e.Dead = true
	e.logf("PANIC in %s: %s\n%s", pi.Call, pi.Value, pi.Full)
	cls := panicClass(pi.Value)
	top := pi.Stack
	if i := strings.Index(top, " < "); i > 0 {
		top = top[:i]
	}
	if pi.Fuel {
		e.Violate("C02", "C02.fuel", pi.Call, pi.Site, fmt.Sprintf("loop budget exhausted in %s at %s (frames: %s)", pi.Call, pi.Site, pi.Stack))
		return
	}
	if pi.Call == "DeliverTx" || pi.Call == "CheckTx" || pi.Call == "Simulate" {
		// baseapp recovers panics inside runTx; one escaping it is still a halt
	}
	e.Violate("C02", "C02.panic", pi.Call, top+":"+cls, fmt.Sprintf("panic escaped %s at height %d: %s (frames: %s)", pi.Call, e.height(), pi.Value, pi.Stack))
}

func panicClass(v string) string {
	v = strings.ToLower(v)
	switch {
	case strings.Contains(v, "negative coin"):
		return "negative coin amount"
	case strings.Contains(v, "divi") && strings.Contains(v, "zero"):
		return "division by zero"
	case strings.Contains(v, "index out of range"):
		return "index out of range"
	case strings.Contains(v, "nil pointer"):
		return "nil pointer"
	case strings.Contains(v, "slice bounds"):
		return "slice bounds"
	case strings.Contains(v, "overflow"):
		return "overflow"
	}
	if len(v) > 40 {
		v = v[:40]
	}
	return v
}

// nextSeq returns account number and sequence for a signer, reading the deliver state
// once per block and counting locally afterwards.
func (e *Env) acctInfo(a *Actor) (uint64, uint64) {
	ctx := e.R.DeliverCtx(e.Blk)
	acc := e.R.App.AccountKeeper.GetAccount(ctx, a.Addr)
	if acc == nil {
		return 0, 0
	}
	return acc.GetAccountNumber(), acc.GetSequence()
}

// RunBlock executes one block with the given ops.
func (e *Env) RunBlock(st *Step) {
	if e.Dead {
		return
	}
	dt := st.Dt
	if dt <= 0 {
		dt = 5
	}
	absent := map[string]bool{}
	for _, vi := range st.Absent {
		if vi >= 0 && vi < len(e.W.Validators) {
			absent[string(e.W.Validators[vi].ConsPriv.PubKey().Bytes())] = true
			e.fault("F11.validator_absent")
		}
	}
	b := e.Seq.NextBlock(time.Duration(dt)*time.Second, nil, absent, nil)
	e.Blk = b
	resp := &BlockResp{}
	var codes []uint32
	bb, pi := e.R.BeginBlock(b)
	if pi != nil {
		e.onPanic(pi)
		return
	}
	resp.Begin = hashEvents(bb.Events)
	e.observe("begin", nil, nil, nil, bb.Events, nil)
	for i := range st.Ops {
		op := &st.Ops[i]
		built, why := e.build(op)
		if built == nil {
			e.Stats.Unresolved++
			e.logf("h=%d op %s unresolved: %s", b.Height, op.K, why)
			continue
		}
		accNum, seq := e.acctInfo(built.Signer)
		txb := signTx(built.Signer.Priv, accNum, seq, 5_000_000, built.Msgs...)
		if op.G > 0 {
			// a sender that sets its gas limit just below what the transaction needs: it runs out of
			// gas somewhere near the end of the handler
			if ok, used, pi := e.R.SimulateGas(txb); pi == nil && ok && used > uint64(op.G)+20_000 {
				txb = signTx(built.Signer.Priv, accNum, seq, used-uint64(op.G), built.Msgs...)
				e.fault("F14.gas_limit_just_below_need")
			}
		}
		n := 1 + op.Dup
		for k := 0; k < n; k++ {
			if k > 0 {
				e.fault("F2.tx_duplicated")
			}
			res, pi := e.R.DeliverTx(txb)
			if pi != nil {
				e.onPanic(pi)
				return
			}
			b.Txs = append(b.Txs, txb)
			codes = append(codes, res.Code)
			resp.Txs = append(resp.Txs, txRespDigest(&res))
			key := op.K + ":ok"
			if res.Code != 0 {
				key = op.K + ":fail"
			}
			e.Stats.Txs[key]++
			e.logf("h=%d tx %s by %s %s -> code=%d %s", b.Height, op.K, built.Signer.Name, built.Info, res.Code, trunc(res.Log, 160))
			r := res
			e.observe("tx", op, built, &r, res.Events, txb)
		}
	}
	eb, pi := e.R.EndBlock(b)
	if pi != nil {
		e.onPanic(pi)
		return
	}
	resp.End = endRespDigest(&eb)
	e.observe("end", nil, nil, nil, eb.Events, nil)
	if e.Shadow != nil {
		e.shadowBlock(b, codes)
	}
	hashv, pi := e.R.Commit()
	if pi != nil {
		e.onPanic(pi)
		return
	}
	resp.Commit = hex.EncodeToString(hashv)
	e.Seq.Advance(b, eb.ValidatorUpdates, hashv)
	e.Stats.Blocks++
	e.Stats.SimSeconds += int64(dt)
	fmt.Fprintf(e.digest, "%d|%s|%s|%s|%s\n", b.Height, resp.Begin, strings.Join(resp.Txs, ","), resp.End, resp.Commit)
	if e.KeepBlocks {
		e.Blocks = append(e.Blocks, b)
		e.Resps = append(e.Resps, resp)
	}
	e.noteState()
}

func trunc(s string, n int) string {
	if len(s) > n {
		return s[:n]
	}
	return s
}

// RunStep executes one trace step.
func (e *Env) RunStep(st *Step) {
	if st.Regen {
		e.Regen(40)
		return
	}
	if st.Idle > 0 {
		for i := 0; i < st.Idle && !e.Dead; i++ {
			e.RunBlock(&Step{Dt: 5})
		}
		return
	}
	e.RunBlock(st)
}

func (e *Env) Finish() {
	for _, o := range e.Oracles {
		o.End(e)
	}
}

func (e *Env) Digest() string { return hex.EncodeToString(e.digest.Sum(nil)) }

// noteState records an abstract state for the "distinct states" measure.
func (e *Env) noteState() {
	s := e.Cur
	var parts []string
	oc := map[string]int{}
	for _, o := range s.Order.Orders {
		oc[fmt.Sprintf("o%d.%d", o.Status, o.Operation)]++
	}
	for _, sh := range s.Order.Shards {
		oc[fmt.Sprintf("s%d.r%d", sh.Status, len(sh.RenewInfos))]++
	}
	for k, v := range oc {
		if v > 3 {
			v = 3
		}
		parts = append(parts, fmt.Sprintf("%s=%d", k, v))
	}
	sort.Strings(parts)
	sup := 0
	for _, n := range s.Node.Nodes {
		if n.Role == 1 {
			sup++
		}
	}
	parts = append(parts, fmt.Sprintf("debts=%d faults=%d super=%d metas=%d", len(s.Node.Debts), len(s.Node.Faults), sup, min(len(s.Model.Metas), 4)))
	e.Stats.States[strings.Join(parts, ",")] = true
}

func min(a, b int) int {
	if a < b {
		return a
	}
	return b
}

// notePair records adjacent op kinds on an object (interleaving measure).
func (e *Env) notePair(obj, kind string) {
	if last, ok := e.lastOp[obj]; ok {
		e.Stats.Pairs[last+">"+kind] = true
	}
	e.lastOp[obj] = kind
}

var _ = authtypes.ModuleName
