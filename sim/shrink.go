package main

// shrink.go: trace-level delta debugging. A candidate is accepted only if replaying it
// reproduces the same violation signature.

import "time"

type opRef struct{ s, o int }

func cloneTrace(t *Trace) *Trace {
	n := &Trace{Version: t.Version, Cfg: t.Cfg}
	for _, s := range t.Steps {
		c := s
		c.Ops = append([]Op{}, s.Ops...)
		c.Absent = append([]int{}, s.Absent...)
		n.Steps = append(n.Steps, c)
	}
	return n
}

// normalise merges adjacent empty blocks / idle stretches.
func normalise(t *Trace) *Trace {
	n := &Trace{Version: t.Version, Cfg: t.Cfg}
	for _, s := range t.Steps {
		empty := s.Idle == 0 && len(s.Ops) == 0 && len(s.Absent) == 0 && !s.Regen && (s.Dt == 5 || s.Dt == 0)
		if s.Idle > 0 || empty {
			k := s.Idle
			if empty {
				k = 1
			}
			if len(n.Steps) > 0 && n.Steps[len(n.Steps)-1].Idle > 0 {
				n.Steps[len(n.Steps)-1].Idle += k
			} else {
				n.Steps = append(n.Steps, Step{Idle: k})
			}
			continue
		}
		n.Steps = append(n.Steps, s)
	}
	return n
}

func Shrink(t *Trace, sig string, opt RunOpts, maxTime time.Duration, maxExec int) *Trace {
	t0 := time.Now()
	execs := 0
	opt.Stop = false
	opt.Verbose = false
	opt.StopSig = sig
	test := func(c *Trace) bool {
		if execs >= maxExec || time.Since(t0) > maxTime {
			return false
		}
		execs++
		res := Replay(c, opt)
		for _, v := range res.Violations {
			if v.Sig() == sig {
				return true
			}
		}
		return false
	}
	cur := cloneTrace(t)
	if !test(cur) {
		return t
	}
	// 0. bulk simplifications: uniform block time, no absences, no duplicates
	{
		c := cloneTrace(cur)
		for si := range c.Steps {
			if c.Steps[si].Idle == 0 {
				c.Steps[si].Dt = 5
			}
			c.Steps[si].Absent = nil
			for oi := range c.Steps[si].Ops {
				c.Steps[si].Ops[oi].Dup = 0
			}
		}
		if test(c) {
			cur = normalise(c)
		}
	}
	// 0b. relevance slicing: keep node/DID/staking ops and only the storage ops of one data index
	{
		seenD := map[int]bool{}
		var ds []int
		for si := len(cur.Steps) - 1; si >= 0; si-- {
			for _, op := range cur.Steps[si].Ops {
				for _, d := range append([]int{op.D}, op.Ds...) {
					if isDataOp(op.K) && !seenD[d] {
						seenD[d] = true
						ds = append(ds, d)
					}
				}
			}
		}
		for i, d := range ds {
			if i >= 12 {
				break
			}
			c := cloneTrace(cur)
			for si := range c.Steps {
				var keep []Op
				for _, op := range c.Steps[si].Ops {
					if !isDataOp(op.K) {
						keep = append(keep, op)
						continue
					}
					rel := op.D == d && len(op.Ds) == 0
					for _, x := range op.Ds {
						if x == d {
							rel = true
						}
					}
					if rel {
						if len(op.Ds) > 0 {
							op.Ds = []int{d}
						}
						keep = append(keep, op)
					}
				}
				c.Steps[si].Ops = keep
			}
			if test(c) {
				cur = c
				break
			}
		}
	}
	// 0c. drop heartbeats and non-storage noise in bulk
	for _, kinds := range [][]string{{"heartbeat"}, {"claim", "send", "perm", "report", "recover", "set_payaddr2"}, {"delegate", "undelegate", "redelegate"}} {
		c := cloneTrace(cur)
		for si := range c.Steps {
			if si < 3 {
				continue
			}
			var keep []Op
			for _, op := range c.Steps[si].Ops {
				drop := false
				for _, k := range kinds {
					if op.K == k || op.Note == k {
						drop = true
					}
				}
				if !drop {
					keep = append(keep, op)
				}
			}
			c.Steps[si].Ops = keep
		}
		if test(c) {
			cur = c
		}
	}
	// 1. drop ops in chunks
	for {
		var refs []opRef
		for si, s := range cur.Steps {
			for oi := range s.Ops {
				refs = append(refs, opRef{si, oi})
			}
		}
		progress := false
		for chunk := (len(refs) + 1) / 2; chunk >= 1; chunk /= 2 {
			i := 0
			for i < len(refs) {
				end := i + chunk
				if end > len(refs) {
					end = len(refs)
				}
				drop := map[opRef]bool{}
				for _, r := range refs[i:end] {
					drop[r] = true
				}
				c := cloneTrace(cur)
				for si := range c.Steps {
					var keep []Op
					for oi, op := range c.Steps[si].Ops {
						if !drop[opRef{si, oi}] {
							keep = append(keep, op)
						}
					}
					c.Steps[si].Ops = keep
				}
				if test(c) {
					cur = c
					progress = true
					// recompute refs
					refs = refs[:0]
					for si, s := range cur.Steps {
						for oi := range s.Ops {
							refs = append(refs, opRef{si, oi})
						}
					}
					continue
				}
				i = end
			}
			if chunk == 1 {
				break
			}
		}
		if !progress || execs >= maxExec || time.Since(t0) > maxTime {
			break
		}
	}
	cur = normalise(cur)
	{
		c := cloneTrace(cur)
		for si := range c.Steps {
			if c.Steps[si].Idle == 0 {
				c.Steps[si].Dt = 5
			}
			c.Steps[si].Absent = nil
		}
		if test(c) {
			cur = normalise(c)
		}
	}
	// 2. drop faults attached to steps (absent validators, long dt, duplicates)
	for si := range cur.Steps {
		s := &cur.Steps[si]
		if len(s.Absent) > 0 {
			c := cloneTrace(cur)
			c.Steps[si].Absent = nil
			if test(c) {
				cur = c
			}
		}
		if s.Dt != 5 && s.Dt != 0 && s.Idle == 0 {
			c := cloneTrace(cur)
			c.Steps[si].Dt = 5
			if test(c) {
				cur = c
			}
		}
		for oi := range cur.Steps[si].Ops {
			if cur.Steps[si].Ops[oi].Dup > 0 {
				c := cloneTrace(cur)
				c.Steps[si].Ops[oi].Dup = 0
				if test(c) {
					cur = c
				}
			}
		}
	}
	cur = normalise(cur)
	// 3. shorten idle stretches (halving), then drop them
	for si := 0; si < len(cur.Steps); si++ {
		for cur.Steps[si].Idle > 1 {
			c := cloneTrace(cur)
			c.Steps[si].Idle = cur.Steps[si].Idle / 2
			if test(c) {
				cur = c
			} else {
				break
			}
		}
		if cur.Steps[si].Idle == 1 {
			c := cloneTrace(cur)
			c.Steps = append(c.Steps[:si], c.Steps[si+1:]...)
			if len(c.Steps) > 0 && test(c) {
				cur = c
				si--
			}
		}
	}
	return normalise(cur)
}

func isDataOp(k string) bool {
	switch k {
	case "store", "ready", "complete", "cancel", "terminate", "renew", "migrate", "perm", "report", "recover":
		return true
	}
	return false
}
