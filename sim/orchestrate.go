package main

// orchestrate.go: `saosim check` — seeded search over many runs in worker processes,
// minimisation, replay confirmation, evidence.

import (
	"bufio"
	"encoding/json"
	"fmt"
	"os"
	"os/exec"
	"path/filepath"
	"sort"
	"strconv"
	"strings"
	"sync"
	"time"
)

type RunSpec struct {
	Index    int    `json:"index"`
	Seed     uint64 `json:"seed"`
	Profile  string `json:"profile"`
	Prop     string `json:"prop"`
	Mode     string `json:"mode"` // "", "c01", "c03", "c18", "sweep"
	Fuel     int64  `json:"fuel"`
	Stop     bool   `json:"stop"`
	Thorough bool   `json:"thorough"`
}

type mixEntry struct {
	Profile string
	Mode    string
	W       float64
}

// propMix: the property-specific mixture of profiles (DESIGN §6).
var propMix = map[string][]mixEntry{
	"C01": {{"did", "c01", 3}, {"mixed", "c01", 4}, {"staking", "c01", 3}, {"authz", "c01", 2}, {"timeout", "c01", 1}},
	"C03": {{"staking", "c03", 6}, {"mixed", "c03", 3}},
	"C02": {{"mixed", "c01", 1}, {"mixed", "c03", 1}, {"mixed", "", 3}, {"long", "", 3}, {"timeout", "", 1}, {"staking", "", 1}, {"authz", "", 1}, {"capacity", "", 1}, {"crowd", "", 1}},
	"C04": {{"mixed", "", 5}, {"long", "", 2}, {"timeout", "", 1}},
	"C05": {{"timeout", "", 4}, {"mixed", "", 3}},
	"C06": {{"mixed", "", 4}, {"long", "", 2}, {"reward", "", 2}},
	"C07": {{"mixed", "", 4}, {"long", "", 2}, {"reward", "", 1}, {"capacity", "", 1}},
	"C08": {{"reward", "", 5}, {"mixed", "", 2}, {"long", "", 1}, {"capacity", "", 1}},
	"C09": {{"authz", "", 6}, {"mixed", "", 2}},
	"C10": {{"authz", "", 6}, {"mixed", "", 2}, {"did", "", 2}},
	"C11": {{"long", "", 3}, {"longer", "", 1}},
	"C12": {{"timeout", "", 6}, {"mixed", "", 2}},
	"C13": {{"mixed", "", 6}, {"timeout", "", 2}, {"long", "", 1}},
	"C14": {{"mixed", "", 6}, {"timeout", "", 2}, {"long", "", 1}},
	"C15": {{"mixed", "", 4}, {"timeout", "", 3}, {"staking", "", 1}, {"crowd", "", 1}},
	"C16": {{"authz", "", 3}, {"mixed", "", 3}, {"timeout", "", 2}},
	"C17": {{"did", "", 7}, {"mixed", "", 1}},
	"C18": {{"mixed", "c18", 4}, {"faults", "c18", 3}, {"staking", "c18", 2}, {"did", "c18", 1}, {"timeout", "c18", 1}},
	"C19": {{"faults", "", 6}, {"mixed", "", 1}},
	"C20": {{"staking", "", 7}, {"mixed", "", 1}},
}

// mandatory probes per property: a check that never reaches them explored nothing.
var propProbes = map[string][]string{
	"C05": {"order_ended_before_first_completion"},
	"C11": {"shard_expired"},
	"C12": {"order_with_stalled_shards"},
	"C15": {"providers_selected"},
	"C16": {"update_accepted"},
	"C17": {"did_binding_created"},
	"C18": {"regenesis_done"},
	"C19": {"fault_record_changed"},
	"C20": {"super_node_promoted"},
}

type propMeta struct {
	Title string
	Rule  string
}

func envInt(name string, def int64) int64 {
	if v := os.Getenv(name); v != "" {
		if x, err := strconv.ParseInt(v, 10, 64); err == nil {
			return x
		}
	}
	return def
}

func runSeed(base uint64, idx int) uint64 {
	x := base*0x9e3779b97f4a7c15 + uint64(idx)*0xbf58476d1ce4e5b9 + 0x1234567
	return splitmix(&x) >> 1
}

// worker loop: reads RunSpec lines, writes RunResult lines.
func cmdWorker() {
	in := bufio.NewScanner(os.Stdin)
	in.Buffer(make([]byte, 1<<20), 1<<26)
	out := bufio.NewWriter(os.Stdout)
	known := LoadKnown(knownPath())
	for in.Scan() {
		var sp RunSpec
		if err := json.Unmarshal(in.Bytes(), &sp); err != nil {
			fmt.Fprintln(os.Stderr, "bad spec:", err)
			os.Exit(2)
		}
		t0 := time.Now()
		res := execSpec(sp, known)
		res.WallMs = time.Since(t0).Milliseconds()
		b, _ := json.Marshal(struct {
			Index int `json:"index"`
			*RunResult
		}{sp.Index, res})
		out.Write(b)
		out.WriteByte('\n')
		out.Flush()
	}
}

func replayDir() string {
	if p := os.Getenv("VERIF_REPLAY_DIR"); p != "" {
		return p
	}
	return "/verif/replays"
}

func evidenceDir() string {
	if p := os.Getenv("VERIF_EVIDENCE_DIR"); p != "" {
		return p
	}
	return "/verif/evidence"
}

func knownPath() string {
	if p := os.Getenv("VERIF_KNOWN"); p != "" {
		return p
	}
	return "/verif/known_findings.json"
}

func execSpec(sp RunSpec, known *KnownFindings) *RunResult {
	opt := RunOpts{Props: map[string]bool{sp.Prop: true}, Known: known, Fuel: sp.Fuel, Mode: sp.Mode, Stop: sp.Stop, Thorough: sp.Thorough}
	if sp.Prop == "ALL" {
		opt.Props = nil
	}
	return Generate(sp.Seed, sp.Profile, opt)
}

type indexedResult struct {
	Index int `json:"index"`
	RunResult
}

func cmdCheck(args []string) {
	prop, tier := "", "quick"
	for i := 0; i < len(args); i++ {
		switch args[i] {
		case "-prop":
			prop = args[i+1]
			i++
		case "-tier":
			tier = args[i+1]
			i++
		}
	}
	if t := os.Getenv("VERIF_TIER"); t != "" && (t == "quick" || t == "thorough") {
		tier = t
	}
	if prop == "ALL" {
		cmdSurvey(tier)
		return
	}
	mix, ok := propMix[prop]
	if !ok {
		fmt.Println("no check for property", prop)
		os.Exit(2)
	}
	base := uint64(envInt("VERIF_SEED", 1))
	budget := envInt("VERIF_BUDGET_S", 0)
	if budget == 0 {
		if tier == "quick" {
			budget = 75
			if prop == "C11" {
				budget = 100
			}
		} else {
			budget = 1500
		}
	}
	workers := int(envInt("VERIF_WORKERS", 16))
	maxRuns := int(envInt("VERIF_MAX_RUNS", 1<<30))
	t0 := time.Now()
	deadline := t0.Add(time.Duration(budget) * time.Second)
	// watchdog: a stuck harness is reported as such (exit 2), never as a violation
	time.AfterFunc(time.Duration(budget)*3*time.Second+25*time.Minute, func() {
		fmt.Printf("HARNESS-ERROR: watchdog: check %s %s still running after %v\n", prop, tier, time.Since(t0))
		os.Exit(2)
	})

	self, _ := os.Executable()
	var mu sync.Mutex
	next := 0
	var results []indexedResult
	var harnessErr string
	mixRng := NewRng(base).Sub("mix-" + prop)
	ws := make([]float64, len(mix))
	for i, m := range mix {
		ws[i] = m.W
	}
	// pre-draw the mixture per index lazily but deterministically
	var mixIdx []int
	specFor := func(i int) RunSpec {
		for len(mixIdx) <= i {
			mixIdx = append(mixIdx, mixRng.Pick(ws))
		}
		m := mix[mixIdx[i]]
		if tier == "thorough" && m.Profile == "long" && i%3 == 1 {
			m.Profile = "longer"
		}
		if tier == "thorough" && m.Profile == "longer" && i%2 == 0 {
			m.Profile = "longest"
		}
		return RunSpec{Index: i, Seed: runSeed(base, i), Profile: m.Profile, Prop: prop, Mode: m.Mode, Fuel: 5_000_000, Stop: true, Thorough: tier == "thorough"}
	}
	stop := false
	allLong := true
	for _, m := range mix {
		if !getProfile(m.Profile).Long {
			allLong = false
		}
	}
	var wg sync.WaitGroup
	for w := 0; w < workers; w++ {
		wg.Add(1)
		go func() {
			defer wg.Done()
			cmd := exec.Command(self, "worker")
			cmd.Env = append(os.Environ(), "GOMAXPROCS=2", "GOGC=300")
			stdin, _ := cmd.StdinPipe()
			stdout, _ := cmd.StdoutPipe()
			cmd.Stderr = os.Stderr
			if err := cmd.Start(); err != nil {
				mu.Lock()
				harnessErr = "cannot start worker: " + err.Error()
				mu.Unlock()
				return
			}
			rd := bufio.NewReaderSize(stdout, 1<<20)
			for {
				mu.Lock()
				if stop || time.Now().After(deadline) || next >= maxRuns {
					mu.Unlock()
					break
				}
				sp := specFor(next)
				next++
				if left := time.Until(deadline); (left < 40*time.Second && getProfile(sp.Profile).Long) || (left < 75*time.Second && sp.Profile == "longer") {
					if allLong {
						if sp.Profile != "long" && left >= 40*time.Second {
							sp.Profile = "long" // still time for a shorter long-horizon run
						} else {
							stop = true // mu is held here
							mu.Unlock()
							break
						}
					} else {
						sp.Profile = "mixed" // a long-horizon run would overrun the budget
					}
				}
				mu.Unlock()
				b, _ := json.Marshal(sp)
				stdin.Write(append(b, '\n'))
				line, err := rd.ReadBytes('\n')
				if err != nil {
					mu.Lock()
					if harnessErr == "" {
						harnessErr = fmt.Sprintf("worker died on run %d (seed %d profile %s): %v", sp.Index, sp.Seed, sp.Profile, err)
					}
					stop = true
					mu.Unlock()
					break
				}
				var r indexedResult
				if err := json.Unmarshal(line, &r); err != nil {
					mu.Lock()
					harnessErr = "bad worker output: " + err.Error()
					stop = true
					mu.Unlock()
					break
				}
				mu.Lock()
				results = append(results, r)
				if r.Harness != "" && harnessErr == "" {
					harnessErr = fmt.Sprintf("run %d seed %d: %s", r.Index, r.Seed, r.Harness)
					stop = true
				}
				if len(r.Violations) > 0 {
					stop = true
				}
				mu.Unlock()
			}
			stdin.Close()
			cmd.Wait()
		}()
	}
	wg.Wait()
	sort.Slice(results, func(i, j int) bool { return results[i].Index < results[j].Index })

	if harnessErr != "" {
		fmt.Println("HARNESS-ERROR:", harnessErr)
		os.Exit(2)
	}

	// violations: take the lowest-index violating run, minimise, confirm by replay in a fresh process
	exit := 0
	var vioLines []string
	nViol := 0
	for i := range results {
		r := &results[i]
		if len(r.Violations) == 0 || r.Trace == nil {
			continue
		}
		nViol++
		if nViol > 1 {
			continue
		}
		v := r.Violations[0]
		path := reportViolation(prop, r.Trace, v, specFor(r.Index))
		if path == "" {
			fmt.Printf("HARNESS-ERROR: violation %s of run %d (seed %d) did not reproduce on replay\n", v.Sig(), r.Index, r.Seed)
			os.Exit(2)
		}
		vioLines = append(vioLines, fmt.Sprintf("VIOLATION property=%s replay=%s", prop, path))
		fmt.Printf("violation: %s\n  %s\n", v.Sig(), v.Msg)
		exit = 1
	}
	known := LoadKnown(knownPath())
	hits := map[string]int{}
	for _, r := range results {
		for k, n := range r.KnownHits {
			hits[k] += n
		}
	}
	for _, k := range known.Entries {
		// every listed open finding of this property is announced, whether or not this batch reached it
		if k.Status == "open" && k.Property == prop {
			fmt.Printf("KNOWN-FINDING: property=%s %s (signature %s, matched in %d runs)\n", prop, k.WhatFails, k.Signature, hits[k.Signature])
		}
	}
	ev := writeEvidence(prop, tier, base, results, time.Since(t0).Seconds(), nViol, hits)
	// a check that never reached its mandatory probes explored nothing relevant
	if exit == 0 {
		for _, p := range propProbes[prop] {
			if ev.probes[p] == 0 {
				fmt.Printf("HARNESS-ERROR: mandatory probe %q never hit in %d runs\n", p, len(results))
				os.Exit(2)
			}
		}
	}
	for _, l := range vioLines {
		fmt.Println(l)
	}
	fmt.Printf("%s %s: %d runs, %d blocks, %.0fs, violations=%d\n", prop, tier, len(results), ev.blocks, time.Since(t0).Seconds(), nViol)
	os.Exit(exit)
}

// ReplayFile is the on-disk replay format.
type ReplayFile struct {
	Engine    int    `json:"engine_version"`
	Property  string `json:"property"`
	Signature string `json:"expected_signature"`
	Message   string `json:"message"`
	Mode      string `json:"mode,omitempty"`
	Fuel      int64  `json:"fuel"`
	Thorough  bool   `json:"thorough,omitempty"`
	Minimised bool   `json:"minimised"`
	OrigSteps int    `json:"original_steps"`
	OrigOps   int    `json:"original_ops"`
	Trace     *Trace `json:"trace"`
}

func countOps(t *Trace) int {
	n := 0
	for _, s := range t.Steps {
		n += len(s.Ops)
	}
	return n
}

func reportViolation(prop string, tr *Trace, v Violation, sp RunSpec) string {
	os.MkdirAll(replayDir(), 0o755)
	opt := RunOpts{Props: map[string]bool{prop: true}, Known: LoadKnown(knownPath()), Fuel: sp.Fuel, Mode: sp.Mode, Stop: true, Thorough: sp.Thorough}
	if sp.Mode == "c01" || sp.Mode == "c03" {
		if strings.HasPrefix(v.Sub, "C01") || strings.HasPrefix(v.Sub, "C03") {
			opt.OnlyReplica = v.Step
		}
	}
	// cut the trace after the violating step
	cut := &Trace{Version: tr.Version, Cfg: tr.Cfg, Steps: append([]Step{}, tr.Steps...)}
	if v.StepIx+1 < len(cut.Steps) {
		cut.Steps = cut.Steps[:v.StepIx+1]
	}
	min := Shrink(cut, v.Sig(), opt, time.Duration(envInt("VERIF_SHRINK_S", 150))*time.Second, 1500)
	rf := &ReplayFile{Engine: 1, Property: prop, Signature: v.Sig(), Message: v.Msg, Mode: sp.Mode, Fuel: sp.Fuel, Thorough: sp.Thorough, Minimised: true, OrigSteps: len(tr.Steps), OrigOps: countOps(tr), Trace: min}
	name := fmt.Sprintf("%s-%s-%d.json", prop, short(sha([]byte(v.Sig()))), tr.Cfg.Seed)
	path := filepath.Join(replayDir(), name)
	b, _ := json.MarshalIndent(rf, "", " ")
	os.WriteFile(path, b, 0o644)
	if confirmReplay(path) {
		return path
	}
	// fall back to the unminimised trace
	rf.Trace = cut
	rf.Minimised = false
	b, _ = json.MarshalIndent(rf, "", " ")
	os.WriteFile(path, b, 0o644)
	if confirmReplay(path) {
		return path
	}
	return ""
}

func confirmReplay(path string) bool {
	self, _ := os.Executable()
	cmd := exec.Command(self, "replay", path)
	out, _ := cmd.CombinedOutput()
	return cmd.ProcessState != nil && cmd.ProcessState.ExitCode() == 1 && strings.Contains(string(out), "VIOLATION")
}

func cmdReplay(args []string) {
	if len(args) < 1 {
		fmt.Println("usage: saosim replay <file> [-v]")
		os.Exit(2)
	}
	b, err := os.ReadFile(args[0])
	if err != nil {
		fmt.Println(err)
		os.Exit(2)
	}
	var rf ReplayFile
	if err := json.Unmarshal(b, &rf); err != nil {
		fmt.Println(err)
		os.Exit(2)
	}
	verbose := len(args) > 1 && args[1] == "-v"
	opt := RunOpts{Props: map[string]bool{rf.Property: true}, Fuel: rf.Fuel, Mode: rf.Mode, Verbose: verbose, Stop: true, Thorough: rf.Thorough}
	if os.Getenv("VERIF_REPLAY_USE_KNOWN") == "1" {
		opt.Known = LoadKnown(knownPath())
	}
	if os.Getenv("VERIF_REPLAY_ALL") == "1" {
		// development aid: all oracles, no stop at the first violation
		opt.Props, opt.Stop = nil, false
	}
	res := Replay(rf.Trace, opt)
	for _, l := range res.Sample {
		fmt.Println(l)
	}
	for _, v := range res.Violations {
		if v.Sig() == rf.Signature {
			fmt.Printf("reproduced: %s\n  %s\n", v.Sig(), v.Msg)
			fmt.Printf("VIOLATION property=%s replay=%s\n", rf.Property, args[0])
			os.Exit(1)
		}
	}
	for _, v := range res.Violations {
		fmt.Printf("other violation: %s\n  %s\n", v.Sig(), v.Msg)
	}
	fmt.Println("not reproduced")
	os.Exit(0)
}

// cmdSurvey: development aid — runs seeds with all oracles on, no stop, and tabulates
// violation signatures (never used by a registered check).
func cmdSurvey(profile string) {
	n := int(envInt("VERIF_MAX_RUNS", 64))
	base := uint64(envInt("VERIF_SEED", 1))
	self, _ := os.Executable()
	var mu sync.Mutex
	next := 0
	type agg struct {
		n    int
		seed uint64
		msg  string
	}
	sigs := map[string]*agg{}
	var wg sync.WaitGroup
	for w := 0; w < 16; w++ {
		wg.Add(1)
		go func() {
			defer wg.Done()
			cmd := exec.Command(self, "worker")
			cmd.Env = append(os.Environ(), "GOMAXPROCS=2", "GOGC=300")
			stdin, _ := cmd.StdinPipe()
			stdout, _ := cmd.StdoutPipe()
			cmd.Stderr = os.Stderr
			cmd.Start()
			rd := bufio.NewReaderSize(stdout, 1<<20)
			for {
				mu.Lock()
				if next >= n {
					mu.Unlock()
					break
				}
				i := next
				next++
				mu.Unlock()
				sp := RunSpec{Index: i, Seed: runSeed(base, i), Profile: profile, Prop: "ALL", Fuel: 5_000_000, Mode: os.Getenv("VERIF_MODE")}
				b, _ := json.Marshal(sp)
				stdin.Write(append(b, '\n'))
				line, err := rd.ReadBytes('\n')
				if err != nil {
					fmt.Println("worker died on seed", sp.Seed)
					break
				}
				var r indexedResult
				json.Unmarshal(line, &r)
				mu.Lock()
				if r.Harness != "" {
					fmt.Println("harness:", r.Harness)
				}
				for _, v := range r.Violations {
					a := sigs[v.Sig()]
					if a == nil {
						a = &agg{seed: r.Seed, msg: v.Msg}
						sigs[v.Sig()] = a
					}
					a.n++
				}
				mu.Unlock()
			}
			stdin.Close()
			cmd.Wait()
		}()
	}
	wg.Wait()
	ks := make([]string, 0)
	for k := range sigs {
		ks = append(ks, k)
	}
	sort.Strings(ks)
	for _, k := range ks {
		fmt.Printf("%4d  %s  (seed %d)\n      %s\n", sigs[k].n, k, sigs[k].seed, trunc(sigs[k].msg, 300))
	}
}
