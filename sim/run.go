package main

import (
	"encoding/json"
	"fmt"
	"os"
	"runtime/pprof"
	"sort"
)

// RunResult is what one simulated run reports to the orchestrator.
type RunResult struct {
	Seed       uint64         `json:"seed"`
	Profile    string         `json:"profile"`
	Digest     string         `json:"digest"`
	TraceHash  string         `json:"trace_hash"`
	Violations []Violation    `json:"violations,omitempty"`
	KnownHits  map[string]int `json:"known_hits,omitempty"`
	Stats      *Stats         `json:"stats"`
	NStates    int            `json:"n_states"`
	NPairs     int            `json:"n_pairs"`
	StatesList []string       `json:"states_list,omitempty"`
	PairsList  []string       `json:"pairs_list,omitempty"`
	Steps      int            `json:"steps"`
	Height     int64          `json:"height"`
	Dead       bool           `json:"dead"`
	WallMs     int64          `json:"wall_ms"`
	Trace      *Trace         `json:"trace,omitempty"`
	Sample     []string       `json:"sample,omitempty"`
	Harness    string         `json:"harness_error,omitempty"`
	MaxTicks   int64          `json:"max_ticks"`
}

type RunOpts struct {
	Props       map[string]bool
	Known       *KnownFindings
	Verbose     bool
	KeepTrace   bool
	Fuel        int64
	Mode        string // "", "c01", "c03", "c18"
	Stop        bool
	StopSig     string
	OnlyReplica string // shrink: replay only the diverging replica
	Thorough    bool
}

func defaultOracles(e *Env) {
	e.T = newTrack()
	e.Oracles = []Oracle{trackOracle{}, newInvOracle(), newMoneyOracle(), newAuthOracle(), newLifeOracle(), newDidOracle()}
}

// Generate runs the adaptive generator on the observer and returns the result + trace.
func Generate(seed uint64, profName string, opt RunOpts) *RunResult {
	prof := getProfile(profName)
	cfg := DrawConfig(seed, prof)
	e := NewEnv(cfg)
	defer e.Close()
	e.WantProps = opt.Props
	e.Known = opt.Known
	e.Verbose = opt.Verbose
	e.StopOnViolation = opt.Stop
	tr := &Trace{Version: 1, Cfg: cfg}
	res := &RunResult{Seed: seed, Profile: profName}
	if pi := e.Init(); pi != nil {
		res.Harness = "InitChain panic: " + pi.Value + " " + pi.Stack
		return res
	}
	e.R.FuelBudget = opt.Fuel
	defaultOracles(e)
	e.KeepBlocks = opt.Mode == "c01" || opt.Mode == "c03"
	g := NewGen(e, prof)
	g.Regen = opt.Mode == "c18"
	for {
		st := g.Next()
		if st == nil {
			break
		}
		e.stepIx = len(tr.Steps)
		tr.Steps = append(tr.Steps, *st)
		e.RunStep(st)
		if len(e.Viol) > 0 && e.StopOnViolation {
			break
		}
	}
	e.Thorough = opt.Thorough
	if len(e.Viol) == 0 || !e.StopOnViolation {
		e.RunReplicas(opt.Mode)
	}
	e.Finish()
	finishResult(e, tr, res, opt)
	return res
}

// Replay executes a materialised trace.
func Replay(tr *Trace, opt RunOpts) *RunResult {
	e := NewEnv(tr.Cfg)
	defer e.Close()
	e.WantProps = opt.Props
	e.Known = opt.Known
	e.Verbose = opt.Verbose
	res := &RunResult{Seed: tr.Cfg.Seed, Profile: tr.Cfg.Profile}
	if pi := e.Init(); pi != nil {
		res.Harness = "InitChain panic: " + pi.Value + " " + pi.Stack
		return res
	}
	e.R.FuelBudget = opt.Fuel
	defaultOracles(e)
	e.KeepBlocks = opt.Mode == "c01" || opt.Mode == "c03"
	for i := range tr.Steps {
		e.stepIx = i
		st := tr.Steps[i]
		e.RunStep(&st)
		if e.Dead {
			break
		}
		if opt.StopSig != "" {
			hit := false
			for _, v := range e.Viol {
				if v.Sig() == opt.StopSig {
					hit = true
				}
			}
			if hit {
				break
			}
		}
	}
	e.OnlyReplica = opt.OnlyReplica
	e.Thorough = opt.Thorough
	e.RunReplicas(opt.Mode)
	e.Finish()
	finishResult(e, tr, res, opt)
	return res
}

func finishResult(e *Env, tr *Trace, res *RunResult, opt RunOpts) {
	res.Digest = e.Digest()
	res.Violations = e.Viol
	res.KnownHits = e.KnownHits
	res.Stats = e.Stats
	res.NStates = len(e.Stats.States)
	res.NPairs = len(e.Stats.Pairs)
	for k := range e.Stats.States {
		res.StatesList = append(res.StatesList, short16(sha([]byte(k))))
	}
	sort.Strings(res.StatesList)
	for k := range e.Stats.Pairs {
		res.PairsList = append(res.PairsList, k)
	}
	sort.Strings(res.PairsList)
	res.Steps = len(tr.Steps)
	res.Height = e.Seq.Height
	res.Dead = e.Dead
	res.MaxTicks = e.R.MaxTicks
	res.TraceHash = short16(sha(mustJSON(tr)))
	if opt.KeepTrace || len(e.Viol) > 0 || tr.Cfg.Seed%7 == 0 {
		res.Trace = tr
	}
	res.Sample = e.Log
}

func short16(s string) string {
	if len(s) > 16 {
		return s[:16]
	}
	return s
}

func cmdRun(args []string) {
	seed := uint64(1)
	prof := "mixed"
	verbose := false
	for i := 0; i < len(args); i++ {
		switch args[i] {
		case "-seed":
			fmt.Sscan(args[i+1], &seed)
			i++
		case "-profile":
			prof = args[i+1]
			i++
		case "-v":
			verbose = true
		case "-cpuprofile":
			f, _ := os.Create(args[i+1])
			pprof.StartCPUProfile(f)
			defer pprof.StopCPUProfile()
			i++
		}
	}
	res := Generate(seed, prof, RunOpts{Verbose: verbose, Known: LoadKnown("/verif/known_findings.json")})
	for _, l := range res.Sample {
		fmt.Println(l)
	}
	res.Sample = nil
	res.StatesList, res.PairsList = nil, nil
	b, _ := json.MarshalIndent(res, "", " ")
	os.Stdout.Write(b)
	fmt.Println()
}
