package main

// oracle_money.go: C04 payment conservation, C05 refund/rollback, C06 escrow solvency,
// C07 collateral safety, C08 block-reward accounting. All reason about per-step diffs
// of real snapshots and the bank edges parsed from the step's events.

import (
	"fmt"
	"sort"

	ordertypes "github.com/SaoNetwork/sao/x/order/types"
	saotypes "github.com/SaoNetwork/sao/x/sao/types"
	sdk "github.com/cosmos/cosmos-sdk/types"
)

type moneyOracle struct {
	taint map[string]bool
}

func newMoneyOracle() *moneyOracle  { return &moneyOracle{taint: map[string]bool{}} }
func (o *moneyOracle) Name() string { return "money" }
func (o *moneyOracle) End(e *Env)   {}

func (o *moneyOracle) once(e *Env, prop, sub, step, detail, obj, msg string) {
	key := sub + "|" + detail + "|" + obj
	if o.taint[key] {
		return
	}
	o.taint[key] = true
	e.Violate(prop, sub, step, detail, msg)
}

func stepLabel(si *StepInfo) string {
	if si.Kind == "tx" && si.Op != nil {
		return "tx:" + si.Op.K
	}
	return si.Kind
}

func balDiff(si *StepInfo, addr string) sdk.Int {
	a, ok1 := si.Prev.Bank.Bal[addr]
	b, ok2 := si.Cur.Bank.Bal[addr]
	if !ok1 {
		a = sdk.ZeroInt()
	}
	if !ok2 {
		b = sdk.ZeroInt()
	}
	return b.Sub(a)
}

func sumEdges(si *StepInfo, from, to string) sdk.Int {
	t := sdk.ZeroInt()
	for _, ed := range si.Edges {
		if (from == "" || ed.From == from) && (to == "" || ed.To == to) {
			t = t.Add(ed.Amt)
		}
	}
	return t
}

func priceOf(unit sdk.Dec, size uint64, rep int32, dur uint64) sdk.Int {
	d := unit.MulInt64(int64(size)).MulInt64(int64(rep)).MulInt64(int64(dur))
	return d.Ceil().TruncateInt()
}

func claimable(s *Snap, sp string, h int64) sdk.Dec {
	wk, ok := s.Market.Workers[Denom+"-"+sp]
	if !ok {
		return sdk.ZeroDec()
	}
	return wk.Reward.Amount.Add(wk.IncomePerSecond.Amount.MulInt64(h - wk.LastRewardAt))
}

func pendingReward(s *Snap, sp string) sdk.Dec {
	pl, ok := s.Node.Pledges[sp]
	if !ok {
		return sdk.ZeroDec()
	}
	r := pl.Reward.Amount
	if pl.TotalStorage > 0 {
		r = r.Add(s.Node.Pool.AccRewardPerByte.Amount.MulInt64(pl.TotalStorage).Sub(pl.RewardDebt.Amount))
	}
	return r
}

func debtOf(s *Snap, sp string) sdk.Int {
	if d, ok := s.Node.Debts[sp]; ok {
		return d.Amount
	}
	return sdk.ZeroInt()
}

func (o *moneyOracle) Step(e *Env, si *StepInfo) {
	if si.Kind == "tx" && !si.OK {
		// a rejected transaction changes no tracked balance and no custom store
		for _, a := range sortedKeys(si.Cur.Bank.Bal) {
			if !balDiff(si, a).IsZero() {
				o.once(e, "C04", "C04.reject", stepLabel(si), "balance-changed-by-failed-tx", a, fmt.Sprintf("failed tx (code %d) changed the balance of %s by %s", si.Res.Code, fmtAddr(a), balDiff(si, a)))
			}
		}
		return
	}
	o.c04(e, si)
	o.c05(e, si)
	o.c07(e, si)
	o.c08(e, si)
	if si.Kind == "end" {
		o.c06(e, si)
	}
}

// ---- C04 ----------------------------------------------------------------------------

func (o *moneyOracle) c04(e *Env, si *StepInfo) {
	t := e.T
	prev, cur := si.Prev, si.Cur
	lab := stepLabel(si)
	orderEsc, marketEsc, didEsc := modAddr("order"), modAddr("market"), modAddr("did")
	// charge: accepted store / renew debits exactly one client-side account by the quoted price
	if si.Kind == "tx" && si.OK && si.Op != nil && (si.Op.K == "store" || si.Op.K == "renew") {
		expect := map[string]sdk.Int{}
		for _, id := range orderIDs(cur.Order) {
			if _, had := prev.Order.Orders[id]; had {
				continue
			}
			ord := cur.Order.Orders[id]
			oi := t.Orders[id]
			if oi == nil {
				continue
			}
			size := ord.Size_
			price := priceOf(ord.UnitPrice.Amount, size, ord.Replica, ord.Duration)
			if !ord.Amount.Amount.Equal(price) {
				o.once(e, "C04", "C04.charge", lab, "amount-not-quoted-price", fmt.Sprint(id), fmt.Sprintf("order %d records amount %s but unit price x size x replicas x duration rounded up is %s (size %d rep %d dur %d)", id, ord.Amount.Amount, price, size, ord.Replica, ord.Duration))
			}
			payer := oi.Payer
			if x, ok := expect[payer]; ok {
				expect[payer] = x.Add(price)
			} else {
				expect[payer] = price
			}
		}
		provs := map[string]bool{}
		for _, sh := range cur.Order.Shards {
			provs[sh.Sp] = true
		}
		for _, a := range e.W.Actors {
			d := balDiff(si, a.AddrS)
			want := sdk.ZeroInt()
			if x, ok := expect[a.AddrS]; ok {
				want = x.Neg()
			}
			if si.Op.K == "renew" && provs[a.AddrS] {
				// providers may pay a collateral top-up in the same tx (C07 checks the amount)
				top := sumEdges(si, a.AddrS, modAddr("node"))
				want = want.Sub(top)
			}
			if !d.Equal(want) {
				o.once(e, "C04", "C04.charge", lab, "client-balance-diff", a.Name, fmt.Sprintf("accepted %s changed %s's balance by %s, expected %s (quoted price charged to payer only)", si.Op.K, a.Name, d, want))
			}
		}
	}
	// payee: who may receive money out of the order/market escrows
	for _, ed := range si.Edges {
		if ed.From != orderEsc && ed.From != marketEsc {
			continue
		}
		if ed.To == orderEsc || ed.To == marketEsc || ed.To == didEsc || ed.Amt.IsZero() {
			continue
		}
		ok := false
		if ed.From == marketEsc && ed.To == modAddr("node") && si.Kind == "tx" && si.Op != nil && si.Op.K == "claim" {
			// storage income repaying the claimer's collateral debt becomes collateral
			sp := si.Built.Signer.AddrS
			if debtOf(prev, sp).Sub(debtOf(cur, sp)).GTE(ed.Amt) {
				ok = true
			}
		}
		if ed.From == marketEsc && t.EverProvider[ed.To] && si.Kind == "tx" && si.Op != nil && si.Op.K == "claim" && si.Built.Signer.AddrS == ed.To {
			ok = true
		}
		if !ok {
			// refund: recipient must be payer / owner payment address of an order ending or shrinking in this step
			for _, id := range orderIDs(prev.Order) {
				po := prev.Order.Orders[id]
				co, still := cur.Order.Orders[id]
				if still && co.Amount.Amount.GTE(po.Amount.Amount) && co.Replica >= po.Replica {
					continue
				}
				oi := t.Orders[id]
				if oi != nil && (ed.To == oi.Payer || ed.To == oi.OwnerPay) {
					ok = true
				}
				if ed.To == payAddrOf(prev, po.Owner) {
					ok = true
				}
			}
		}
		if !ok {
			o.once(e, "C04", "C04.payee", lab, "escrow-paid-to-unentitled", ed.To, fmt.Sprintf("%s of order/market escrow paid to %s, which is neither a claiming provider nor the payer/owner of an order ending in this step", ed.Amt, fmtAddr(ed.To)))
		}
	}
	// income: per provider, what left the worker account plus what is claimable equals bytes x blocks earned
	if si.Kind == "tx" && si.OK && si.Op != nil && si.Op.K == "claim" {
		sp := si.Built.Signer.AddrS
		pre, post := claimable(prev, sp, si.Height), claimable(cur, sp, si.Height)
		if pre.GT(post) {
			t.Taken[sp] = decOr0(t.Taken, sp).Add(pre.Sub(post))
		}
	}
	if si.Kind == "end" {
		for _, wn := range sortedKeys(cur.Market.Workers) {
			sp := wn[len(Denom)+1:]
			have := claimable(cur, sp, si.Height+1).Add(decOr0(t.Taken, sp)) // +1: the interval h -> h+1 has been credited to Earned
			want := decOr0(t.Earned, sp)
			if !have.Equal(want) {
				o.once(e, "C04", "C04.income", "block", "provider-income-vs-bytes-blocks", sp, fmt.Sprintf("provider %s: income taken %s + claimable %s = %s but bytes x blocks x price held is %s", fmtAddr(sp), decOr0(t.Taken, sp), claimable(cur, sp, si.Height+1), have, want))
			}
		}
	}
	// settle: when orders end, charged - income attributed - refunds in this step is only rounding dust
	if prev.Order != cur.Order {
		var ended []uint64
		for _, id := range orderIDs(prev.Order) {
			if _, still := cur.Order.Orders[id]; !still {
				ended = append(ended, id)
			}
		}
		if len(ended) > 0 {
			charged, income := sdk.ZeroInt(), sdk.ZeroDec()
			settlements := int64(0)
			payees := map[string]bool{}
			for _, id := range ended {
				oi := t.Orders[id]
				if oi == nil {
					continue
				}
				po := prev.Order.Orders[id]
				charged = charged.Add(po.Amount.Amount)
				income = income.Add(oi.Income)
				settlements += int64(len(oi.Providers)) + 1
				payees[oi.Payer] = true
				payees[oi.OwnerPay] = true
				payees[payAddrOf(prev, po.Owner)] = true
			}
			refunds := sdk.ZeroInt()
			for _, id := range orderIDs(prev.Order) {
				if co, still := cur.Order.Orders[id]; still {
					po := prev.Order.Orders[id]
					if co.Amount.Amount.LT(po.Amount.Amount) && payees[payAddrOf(prev, po.Owner)] {
						// replica reduction in the same step refunding the same address: not part of this settlement
						refunds = refunds.Sub(po.Amount.Amount.Sub(co.Amount.Amount))
					}
				}
			}
			for _, ed := range si.Edges {
				if (ed.From == orderEsc || ed.From == marketEsc) && payees[ed.To] {
					refunds = refunds.Add(ed.Amt)
				}
				if (ed.From == orderEsc || ed.From == marketEsc) && ed.To == didEsc {
					refunds = refunds.Add(ed.Amt)
				}
			}
			// income of the current block for shards released by a tx is credited at release:
			// shards present at the previous block end earned up to this height already.
			rest := sdk.NewDecFromInt(charged).Sub(income).Sub(sdk.NewDecFromInt(refunds))
			if rest.IsNegative() || rest.GT(sdk.NewDec(settlements)) {
				o.once(e, "C04", "C04.settle", lab, "charged-minus-income-minus-refund", fmt.Sprint(ended[0]), fmt.Sprintf("orders %v ended: charged %s, income earned by their shards %s, refunded in this step %s; remainder %s is outside [0,%d] coins of rounding dust", ended, charged, income, refunds, rest, settlements))
			}
		}
	}
}

// ---- C05 ----------------------------------------------------------------------------

func (o *moneyOracle) c05(e *Env, si *StepInfo) {
	t := e.T
	prev, cur := si.Prev, si.Cur
	// an accepted cancel ends the order: it is refunded once and is gone afterwards
	if si.Kind == "tx" && si.OK && si.Op != nil && si.Op.K == "cancel" && si.Built != nil {
		if mc, ok := si.Built.Msgs[0].(*saotypes.MsgCancel); ok {
			if _, still := cur.Order.Orders[mc.OrderId]; still {
				o.once(e, "C05", "C05.gone", stepLabel(si), "cancelled-order-still-exists", fmt.Sprint(mc.OrderId), fmt.Sprintf("cancel of order %d was accepted (refund paid) but the order still exists and can be cancelled again", mc.OrderId))
			}
		}
	}
	if prev.Order == cur.Order {
		return
	}
	lab := stepLabel(si)
	cancelLike := si.Kind == "end" || (si.Kind == "tx" && si.Op != nil && si.Op.K == "cancel")
	if !cancelLike {
		return
	}
	for _, id := range orderIDs(prev.Order) {
		if _, still := cur.Order.Orders[id]; still {
			continue
		}
		oi := t.Orders[id]
		po := prev.Order.Orders[id]
		if oi == nil || oi.EverCompleted || po.Operation == 3 {
			continue
		}
		e.probe("order_ended_before_first_completion")
		// refund: the payer receives exactly the amounts charged for all its orders ending this way in this step
		// (plus partial refunds of replica reductions that happen in the same step)
		want := sdk.ZeroInt()
		exact := true
		for _, id2 := range orderIDs(prev.Order) {
			p2 := prev.Order.Orders[id2]
			oi2 := t.Orders[id2]
			if oi2 == nil || (oi2.Payer != oi.Payer && oi2.OwnerPay != oi.Payer) {
				continue
			}
			c2, still := cur.Order.Orders[id2]
			if !still && !oi2.EverCompleted && p2.Operation != 3 && oi2.Payer == oi.Payer {
				want = want.Add(p2.Amount.Amount)
			} else if !still || c2.Amount.Amount.LT(p2.Amount.Amount) {
				exact = false // other settlements pay the same address in this step (C04.settle judges those)
			}
		}
		got := sumEdges(si, modAddr("order"), oi.Payer).Add(sumEdges(si, modAddr("market"), oi.Payer))
		// a sid DID may have moved its payment address to another of its bound accounts since the
		// charge: a refund to the paying DID's current payment address is the same client
		payDid := po.Owner
		if po.PaymentDid != "" {
			payDid = po.PaymentDid
		}
		if cur2 := payAddrOf(prev, payDid); cur2 != "" && cur2 != oi.Payer {
			got = got.Add(sumEdges(si, modAddr("order"), cur2)).Add(sumEdges(si, modAddr("market"), cur2))
			exact = false
		}
		if (exact && !got.Equal(want)) || got.LT(want) {
			o.once(e, "C05", "C05.refund", lab, "refund-not-full-amount-to-payer", fmt.Sprint(id), fmt.Sprintf("order %d ended before any completion: payer %s received %s in this step, amounts charged for its orders ending here total %s", id, fmtAddr(oi.Payer), got, want))
		}
		// gone: all shards it listed are absent
		for _, sid := range po.Shards {
			if _, ok := cur.Order.Shards[sid]; ok {
				o.once(e, "C05", "C05.gone", lab, "shard-survives-cancelled-order", fmt.Sprint(sid), fmt.Sprintf("order %d ended before any completion but its shard %d still exists", id, sid))
			}
		}
		for _, sid := range shardIDs(cur.Order) {
			if cur.Order.Shards[sid].OrderId == id {
				o.once(e, "C05", "C05.gone", lab, "shard-names-cancelled-order", fmt.Sprint(sid), fmt.Sprintf("shard %d still names order %d which ended before any completion", sid, id))
			}
		}
		// capacity: no provider keeps capacity/collateral/income rate for it (compare with prev: nothing was reserved)
		for sp := range oi.Providers {
			pp, ok1 := prev.Node.Pledges[sp]
			cp, ok2 := cur.Node.Pledges[sp]
			if ok1 && ok2 && si.Kind == "tx" && (pp.UsedStorage != cp.UsedStorage || !pp.TotalShardPledged.IsEqual(cp.TotalShardPledged)) {
				o.once(e, "C05", "C05.capacity", lab, "provider-reservation-changed", sp, fmt.Sprintf("cancelling never-started order %d changed provider %s used capacity %d->%d / shard collateral %s->%s", id, fmtAddr(sp), pp.UsedStorage, cp.UsedStorage, pp.TotalShardPledged.Amount, cp.TotalShardPledged.Amount))
			}
		}
		// ... nor keeps a reservation made when the order was created (used capacity beyond the
		// provider's stored shards must not have grown over the life of the order)
		for _, sp := range sortedKeys(oi.ExcessAtStore) {
			if now := usedExcess(cur, sp); now > oi.ExcessAtStore[sp] {
				o.once(e, "C05", "C05.capacity", lab, "provider-keeps-reservation", sp, fmt.Sprintf("order %d ended before any completion but provider %s still has %d bytes of used capacity beyond its stored shards (%d before the order was created)", id, fmtAddr(sp), now, oi.ExcessAtStore[sp]))
			}
		}
		// meta: back to the previously committed version, or gone together with its alias
		cm, has := cur.Model.Metas[po.DataId]
		if !oi.HadMeta {
			if has && cm.OrderId == id {
				o.once(e, "C05", "C05.meta", lab, "metadata-survives-first-order", po.DataId, fmt.Sprintf("first order %d of data %s ended before completion but the data model still exists", id, po.DataId))
			}
			if !has {
				for k, v := range cur.Model.Models {
					if v == po.DataId {
						o.once(e, "C05", "C05.meta", lab, "alias-survives-first-order", k, fmt.Sprintf("data %s is gone but alias %q still points at it", po.DataId, k))
					}
				}
			}
		} else if has && oi.PreMeta != nil {
			pm := oi.PreMeta
			bad := ""
			switch {
			case cm.Commit != pm.Commit:
				bad = fmt.Sprintf("commit %q, was %q", cm.Commit, pm.Commit)
			case fmt.Sprint(cm.Commits) != fmt.Sprint(pm.Commits):
				bad = "commit history differs"
			case cm.OrderId != pm.OrderId:
				bad = fmt.Sprintf("order link %d, was %d", cm.OrderId, pm.OrderId)
			case fmt.Sprint(cm.Orders) != fmt.Sprint(pm.Orders):
				bad = fmt.Sprintf("order list %v, was %v", cm.Orders, pm.Orders)
			case cm.Cid != pm.Cid:
				bad = "content id differs"
			case cm.Status != pm.Status:
				bad = fmt.Sprintf("status %d, was %d", cm.Status, pm.Status)
			case cm.CreatedAt+cm.Duration < pm.CreatedAt+pm.Duration:
				// (the recomputation from the stored shards may move the end of life up to the end of the
				// last shard; it must never cut the committed version's lifetime)
				bad = fmt.Sprintf("end of life cut to %d, was %d", cm.CreatedAt+cm.Duration, pm.CreatedAt+pm.Duration)
			}
			if bad != "" {
				o.once(e, "C05", "C05.meta", lab, "metadata-not-rolled-back", po.DataId, fmt.Sprintf("update order %d of data %s ended before completion; model not back at its committed version: %s", id, po.DataId, bad))
			}
			// the rolled-back model is still scheduled to expire at created + duration
			found := false
			for _, d := range cur.Model.Expired[cm.CreatedAt+cm.Duration] {
				if d == po.DataId {
					found = true
				}
			}
			if !found {
				o.once(e, "C05", "C05.meta", lab, "data-expiry-entry-missing", po.DataId, fmt.Sprintf("after rollback data %s has no expiry entry at created+duration=%d", po.DataId, cm.CreatedAt+cm.Duration))
			}
		}
	}
}

// ---- C06 ----------------------------------------------------------------------------

func (o *moneyOracle) c06(e *Env, si *StepInfo) {
	s := si.Cur
	h := si.Height
	bal := func(m string) sdk.Int { return s.Bank.Bal[modAddr(m)] }
	// order escrow >= amounts of orders not yet deposited
	owe := sdk.ZeroInt()
	for _, ord := range s.Order.Orders {
		if ord.Status != ordertypes.OrderCompleted && ord.Operation != 3 {
			owe = owe.Add(ord.Amount.Amount)
		}
	}
	if bal("order").LT(owe) {
		o.once(e, "C06", "C06.order", "block", "order-escrow-below-unsettled-orders", "order", fmt.Sprintf("order escrow holds %s but unsettled orders total %s", bal("order"), owe))
	}
	// market escrow >= accrued income + remaining income of live shards + queued renewals
	mo := sdk.ZeroDec()
	for _, wn := range sortedKeys(s.Market.Workers) {
		mo = mo.Add(claimable(s, wn[len(Denom)+1:], h))
	}
	for _, sid := range shardIDs(s.Order) {
		sh := s.Order.Shards[sid]
		if sh.Status != ordertypes.ShardCompleted {
			continue
		}
		if ord, ok := s.Order.Orders[sh.OrderId]; ok && int64(sh.CreatedAt+sh.Duration) > h {
			mo = mo.Add(ord.UnitPrice.Amount.MulInt64(int64(sh.Size_)).MulInt64(int64(sh.CreatedAt+sh.Duration) - h))
		}
		// prepaid renewal periods queued on this shard
		for _, ri := range sh.RenewInfos {
			if ord, ok := s.Order.Orders[ri.OrderId]; ok {
				mo = mo.Add(ord.UnitPrice.Amount.MulInt64(int64(sh.Size_)).MulInt64(int64(ri.Duration)))
			}
		}
	}
	if sdk.NewDecFromInt(bal("market")).Add(sdk.NewDec(2)).LT(mo) {
		o.once(e, "C06", "C06.market", "block", "market-escrow-below-obligations", "market", fmt.Sprintf("market escrow holds %s but accrued income + remaining income of live shards + queued renewals total %s", bal("market"), mo))
	}
	// node escrow >= collateral net of debt + unclaimed rewards
	no := sdk.ZeroDec()
	for _, sp := range sortedKeys(s.Node.Pledges) {
		pl := s.Node.Pledges[sp]
		no = no.Add(sdk.NewDecFromInt(pl.TotalStoragePledged.Amount)).Add(sdk.NewDecFromInt(pl.TotalShardPledged.Amount)).Add(pendingReward(s, sp))
	}
	for _, d := range s.Node.Debts {
		no = no.Sub(sdk.NewDecFromInt(d.Amount))
	}
	if sdk.NewDecFromInt(bal("node")).Add(sdk.NewDec(2)).LT(no) {
		o.once(e, "C06", "C06.node", "block", "node-escrow-below-obligations", "node", fmt.Sprintf("node escrow holds %s but collateral net of debt plus unclaimed rewards total %s", bal("node"), no))
	}
	do := sdk.ZeroInt()
	for _, b := range s.Did.Balances {
		do = do.Add(b.Amount)
	}
	if bal("did").LT(do) {
		o.once(e, "C06", "C06.did", "block", "did-escrow-below-balances", "did", fmt.Sprintf("did escrow holds %s but DID balances total %s", bal("did"), do))
	}
}

// ---- C07 ----------------------------------------------------------------------------

func (o *moneyOracle) c07(e *Env, si *StepInfo) {
	t := e.T
	prev, cur := si.Prev, si.Cur
	lab := stepLabel(si)
	nodeEsc := modAddr("node")
	// capacity bounds after every step
	if prev.Node != cur.Node {
		for _, sp := range sortedKeys(cur.Node.Pledges) {
			pl := cur.Node.Pledges[sp]
			if pl.UsedStorage < 0 || pl.UsedStorage > pl.TotalStorage {
				o.once(e, "C07", "C07.capacity", lab, "used-outside-0-total", sp, fmt.Sprintf("provider %s: used capacity %d outside [0, pledged %d]", fmtAddr(sp), pl.UsedStorage, pl.TotalStorage))
			}
		}
	}
	isClaim := si.Kind == "tx" && si.Op != nil && si.Op.K == "claim"
	isRemove := si.Kind == "tx" && si.Op != nil && si.Op.K == "remove_vstorage"
	isAdd := si.Kind == "tx" && si.Op != nil && si.Op.K == "add_vstorage"
	signer := ""
	if si.Built != nil {
		signer = si.Built.Signer.AddrS
	}
	if isAdd && si.OK {
		t.CapPaid[signer] = intOr0(t.CapPaid, signer).Add(sumEdges(si, signer, nodeEsc))
	}
	if (isAdd || isRemove) && si.OK {
		// capacity is bought and sold at one rate: bytes credited per coin pledged, learnt from the first purchase
		pp, cp := prev.Node.Pledges[signer], cur.Node.Pledges[signer]
		dBytes := cp.TotalStorage - pp.TotalStorage
		dCoins := sdk.ZeroInt()
		if !cp.TotalStoragePledged.Amount.IsNil() {
			dCoins = cp.TotalStoragePledged.Amount
		}
		if !pp.TotalStoragePledged.Amount.IsNil() {
			dCoins = dCoins.Sub(pp.TotalStoragePledged.Amount)
		}
		if t.BytesPerCoin == 0 {
			if isAdd && dCoins.IsPositive() && dBytes > 0 && dBytes%dCoins.Int64() == 0 {
				t.BytesPerCoin = dBytes / dCoins.Int64()
			}
		} else if dCoins.MulRaw(t.BytesPerCoin).Int64() != dBytes {
			o.once(e, "C07", "C07.capacity", lab, "capacity-bytes-vs-coins", signer, fmt.Sprintf("provider %s: capacity changed by %d bytes while the capacity pledge changed by %s coins (rate seen before: %d bytes per coin)", fmtAddr(signer), dBytes, dCoins, t.BytesPerCoin))
		}
	}
	if isRemove && si.OK {
		pp := prev.Node.Pledges[signer]
		cp := cur.Node.Pledges[signer]
		removed := pp.TotalStorage - cp.TotalStorage
		if removed > pp.TotalStorage-pp.UsedStorage {
			o.once(e, "C07", "C07.capacity", lab, "withdrew-more-than-free", signer, fmt.Sprintf("provider %s withdrew %d bytes of capacity with only %d free", fmtAddr(signer), removed, pp.TotalStorage-pp.UsedStorage))
		}
		back := sumEdges(si, nodeEsc, signer)
		t.CapBack[signer] = intOr0(t.CapBack, signer).Add(back)
		if t.CapBack[signer].GT(intOr0(t.CapPaid, signer)) {
			o.once(e, "C07", "C07.capacity", lab, "capacity-refund-exceeds-paid", signer, fmt.Sprintf("provider %s got back %s for capacity but paid only %s", fmtAddr(signer), t.CapBack[signer], intOr0(t.CapPaid, signer)))
		}
	}
	// released shards per provider in this step
	released := map[string]sdk.Int{}
	relShards := map[string][]uint64{}
	if prev.Order != cur.Order {
		for _, sid := range shardIDs(prev.Order) {
			ps := prev.Order.Shards[sid]
			if ps.Status != ordertypes.ShardCompleted {
				continue
			}
			cs, still := cur.Order.Shards[sid]
			if still && cs.Status == ordertypes.ShardCompleted {
				continue
			}
			released[ps.Sp] = intOr0(released, ps.Sp).Add(ps.Pledge.Amount)
			relShards[ps.Sp] = append(relShards[ps.Sp], sid)
		}
	}
	// every edge out of the node escrow must be explained
	outBy := map[string]sdk.Int{}
	for _, ed := range si.Edges {
		if ed.From == nodeEsc && !ed.Amt.IsZero() {
			outBy[ed.To] = intOr0(outBy, ed.To).Add(ed.Amt)
		}
	}
	tos := make([]string, 0, len(outBy))
	for k := range outBy {
		tos = append(tos, k)
	}
	sort.Strings(tos)
	for _, to := range tos {
		if (isClaim || isRemove) && to == signer {
			continue
		}
		if _, ok := released[to]; ok {
			continue
		}
		o.once(e, "C07", "C07.payee", lab, "node-escrow-paid-to-unentitled", to, fmt.Sprintf("%s left the node escrow to %s, who neither withdrew capacity, claimed, nor had a shard released in this step", outBy[to], fmtAddr(to)))
	}
	// return/take: per provider and step, coins paid in minus coins paid out plus the debt
	// change equals collateral recorded on new or topped-up shards minus collateral of
	// released shards (a release returns exactly what was taken, less recorded debt).
	if !isClaim && !isRemove && !isAdd && (prev.Order != cur.Order || len(outBy) > 0) {
		raised := map[string]sdk.Int{}
		if prev.Order != cur.Order {
			for _, sid := range shardIDs(cur.Order) {
				cs := cur.Order.Shards[sid]
				if cs.Status != ordertypes.ShardCompleted {
					continue
				}
				ps, had := prev.Order.Shards[sid]
				before := sdk.ZeroInt()
				if had && ps.Status == ordertypes.ShardCompleted {
					before = ps.Pledge.Amount
				}
				if !cs.Pledge.Amount.Equal(before) {
					raised[cs.Sp] = intOr0(raised, cs.Sp).Add(cs.Pledge.Amount.Sub(before))
				}
			}
		}
		sps := map[string]bool{}
		for k := range raised {
			sps[k] = true
		}
		for k := range released {
			sps[k] = true
		}
		for _, sp := range sortedKeys(sps) {
			paid := sumEdges(si, sp, nodeEsc)
			got := intOr0(outBy, sp)
			debtCh := debtOf(cur, sp).Sub(debtOf(prev, sp))
			lhs := paid.Sub(got).Add(debtCh)
			rhs := intOr0(raised, sp).Sub(intOr0(released, sp))
			if !lhs.Equal(rhs) {
				det, sub := "collateral-taken-mismatch", "C07.take"
				if _, rel := released[sp]; rel {
					det, sub = "released-collateral-mismatch", "C07.return"
				}
				o.once(e, "C07", sub, lab, det, sp, fmt.Sprintf("provider %s: paid %s into and received %s from the node escrow, debt changed by %s; shard collateral taken %s, released %s (shards %v)", fmtAddr(sp), paid, got, debtCh, intOr0(raised, sp), intOr0(released, sp), relShards[sp]))
			}
		}
	}
}

// ---- C08 ----------------------------------------------------------------------------

// rewardAge: number of halvings passed when the cumulative counter is c — the largest k with
// c >= cap*(1 - 2^-k), computed exactly in integers.
func rewardAge(c sdk.Int) uint {
	capI := sdk.NewInt(totalRewardCap)
	k := uint(0)
	for k < 62 {
		// c * 2^(k+1) >= cap * (2^(k+1) - 1) ?
		p := sdk.NewInt(1).MulRaw(1 << (k + 1))
		if c.Mul(p).LT(capI.Mul(p.SubRaw(1))) {
			break
		}
		k++
	}
	return k
}

func (o *moneyOracle) c08(e *Env, si *StepInfo) {
	t := e.T
	prev, cur := si.Prev, si.Cur
	lab := stepLabel(si)
	nodeEsc := modAddr("node")
	storageMods := []string{"node", "order", "market", "did", "model", "sao"}
	for _, m := range storageMods {
		amt, ok := si.Minted[modAddr(m)]
		if !ok || amt.IsZero() {
			continue
		}
		if m != "node" || si.Kind != "begin" {
			o.once(e, "C08", "C08.mint", lab, "mint-outside-node-begin-blocker", m, fmt.Sprintf("%s minted by module %s in step %s", amt, m, lab))
			continue
		}
		t.MintedNode = t.MintedNode.Add(amt)
		if !prev.Node.HasPool || prev.Node.Pool.TotalStorage <= 0 {
			o.once(e, "C08", "C08.mint", lab, "mint-without-capacity", "pool", fmt.Sprintf("%s minted while no capacity is pledged", amt))
		}
		age := rewardAge(prev.Node.Pool.TotalReward.Amount)
		if age > 0 {
			e.probe("reward_minted_after_a_halving")
		}
		if allowed := sdk.NewInt(e.W.Cfg.Node.BlockReward >> age); amt.GT(allowed) {
			o.once(e, "C08", "C08.mint", lab, "mint-above-block-reward", "pool", fmt.Sprintf("%s minted in one block; configured block reward %d, halving age %d (counter %s) allows %s", amt, e.W.Cfg.Node.BlockReward, age, prev.Node.Pool.TotalReward.Amount, allowed))
		}
		// independent pro-rata accumulator: capacity at the start of the block
		tot := prev.Node.Pool.TotalStorage
		if tot > 0 {
			for _, sp := range sortedKeys(prev.Node.Pledges) {
				pl := prev.Node.Pledges[sp]
				if pl.TotalStorage > 0 {
					t.ExpectRw[sp] = decOr0(t.ExpectRw, sp).Add(sdk.NewDecFromInt(amt).MulInt64(pl.TotalStorage).QuoInt64(tot))
				}
			}
			t.RwBlocks++
		}
	}
	if si.Kind == "begin" && cur.Node.HasPool {
		if start := e.W.Cfg.Node.RewardStart; !cur.Node.Pool.TotalReward.Amount.Equal(t.MintedNode.AddRaw(start)) {
			o.once(e, "C08", "C08.counter", lab, "total-reward-vs-minted", "pool", fmt.Sprintf("cumulative reward counter %s but coins minted by the node module total %s (counter at genesis %d)", cur.Node.Pool.TotalReward.Amount, t.MintedNode, start))
		}
	}
	// claim pays the claimer only, exactly the whole-coin part less the recorded debt decrease
	if si.Kind == "tx" && si.OK && si.Op != nil && si.Op.K == "claim" {
		sp := si.Built.Signer.AddrS
		for _, ed := range si.Edges {
			if ed.From == modAddr("market") && ed.To == nodeEsc && debtOf(prev, sp).Sub(debtOf(cur, sp)).GTE(ed.Amt) {
				continue
			}
			if (ed.From == nodeEsc || ed.From == modAddr("market")) && ed.To != sp && !ed.Amt.IsZero() {
				o.once(e, "C08", "C08.claim", lab, "claim-paid-someone-else", ed.To, fmt.Sprintf("claim by %s paid %s to %s", fmtAddr(sp), ed.Amt, fmtAddr(ed.To)))
			}
		}
		preR := pendingReward(prev, sp)
		whole := preR.TruncateInt()
		postR := pendingReward(cur, sp)
		if !postR.Equal(preR.Sub(sdk.NewDecFromInt(whole))) {
			o.once(e, "C08", "C08.claim", lab, "reward-remainder-mismatch", sp, fmt.Sprintf("claim by %s: accrued reward %s, whole part %s, remainder recorded %s", fmtAddr(sp), preR, whole, postR))
		}
		wpre, wpost := claimable(prev, sp, si.Height), claimable(cur, sp, si.Height)
		wWhole := wpre.Sub(wpost)
		debtDec := debtOf(prev, sp).Sub(debtOf(cur, sp))
		got := sumEdges(si, nodeEsc, sp).Add(sumEdges(si, modAddr("market"), sp))
		if !sdk.NewDecFromInt(got.Add(debtDec)).Equal(sdk.NewDecFromInt(whole).Add(wWhole)) {
			o.once(e, "C08", "C08.claim", lab, "claim-payout-mismatch", sp, fmt.Sprintf("claim by %s: whole reward %s + whole income %s but received %s and debt decreased by %s", fmtAddr(sp), whole, wWhole, got, debtDec))
		}
		t.ClaimedRw[sp] = decOr0(t.ClaimedRw, sp).Add(sdk.NewDecFromInt(whole))
	}
	if si.Kind == "end" && cur.Node.HasPool {
		total := sdk.ZeroDec()
		for _, sp := range sortedKeys(cur.Node.Pledges) {
			have := pendingReward(cur, sp).Add(decOr0(t.ClaimedRw, sp))
			total = total.Add(have)
			want := decOr0(t.ExpectRw, sp)
			tol := sdk.NewDecWithPrec(1, 6).MulInt64(t.RwBlocks + 1)
			if have.Sub(want).Abs().GT(tol) {
				o.once(e, "C08", "C08.share", "block", "reward-share-vs-pro-rata", sp, fmt.Sprintf("provider %s: claimed+claimable reward %s but pro-rata share of minted coins is %s (tolerance %s)", fmtAddr(sp), have, want, tol))
			}
		}
		if total.GT(sdk.NewDecFromInt(t.MintedNode).Add(sdk.NewDec(1))) {
			o.once(e, "C08", "C08.cap", "block", "claims-exceed-minted", "pool", fmt.Sprintf("claimed + claimable rewards %s exceed minted %s", total, t.MintedNode))
		}
	}
}

var _ = saotypes.ModuleName
