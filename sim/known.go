package main

import (
	"encoding/json"
	"os"
	"strings"
)

// KnownFinding is one entry of /verif/known_findings.json (never written at run time).
type KnownFinding struct {
	Property  string `json:"property"`
	Signature string `json:"signature"` // prefix of Violation.Sig()
	WhatFails string `json:"what_fails"`
	Status    string `json:"status"` // open | fixed
	Commit    string `json:"commit,omitempty"`
}

type KnownFindings struct {
	Entries []KnownFinding `json:"findings"`
}

func LoadKnown(path string) *KnownFindings {
	k := &KnownFindings{}
	b, err := os.ReadFile(path)
	if err != nil {
		return k
	}
	if err := json.Unmarshal(b, k); err != nil {
		panic("known_findings.json: " + err.Error())
	}
	return k
}

// Match returns the signature of the open entry matching v, or "".
func (k *KnownFindings) Match(v Violation) string {
	for _, e := range k.Entries {
		if e.Status != "open" || e.Property != v.Prop {
			continue
		}
		if strings.HasPrefix(v.Sig(), e.Signature) {
			return e.Signature
		}
	}
	return ""
}
