package main

// chain.go: the sequencer stub (Tendermint stand-in) and replicas of the real app.

import (
	"encoding/json"
	"fmt"
	"os"
	"runtime/debug"
	"sort"
	"time"

	saoapp "github.com/SaoNetwork/sao/app"
	"github.com/SaoNetwork/sao/verifrt"
	"github.com/cosmos/cosmos-sdk/baseapp"
	pruningtypes "github.com/cosmos/cosmos-sdk/pruning/types"
	"github.com/cosmos/cosmos-sdk/simapp"
	storetypes "github.com/cosmos/cosmos-sdk/store/types"
	sdk "github.com/cosmos/cosmos-sdk/types"
	"github.com/ignite/cli/ignite/pkg/cosmoscmd"
	abci "github.com/tendermint/tendermint/abci/types"
	"github.com/tendermint/tendermint/crypto/ed25519"
	"github.com/tendermint/tendermint/libs/log"
	tmproto "github.com/tendermint/tendermint/proto/tendermint/types"
	dbm "github.com/tendermint/tm-db"
)

type tmHeader = tmproto.Header
type sdkContext = sdk.Context

const ChainID = "sao-sim-1"
const Denom = "sao"

var encCfg cosmoscmd.EncodingConfig
var encInit bool

func initEncoding() {
	if encInit {
		return
	}
	cosmoscmd.SetPrefixes("sao")
	encCfg = cosmoscmd.MakeEncodingConfig(saoapp.ModuleBasics)
	encInit = true
}

// watched stores: the six custom stores plus the SDK stores the oracles read.
var watchedStores = []string{"sao", "node", "order", "model", "did", "market", "bank", "staking", "acc"}

type dirtyListener struct {
	name string
	set  map[string]bool
}

func (d *dirtyListener) OnWrite(storeKey storetypes.StoreKey, key []byte, value []byte, delete bool) error {
	d.set[d.name] = true
	return nil
}

// PanicInfo describes a panic that escaped an ABCI call.
type PanicInfo struct {
	Call  string
	Value string
	Stack string
	Fuel  bool
	Site  string
	Full  string
}

// Replica is one node: an App over its own DB.
type Replica struct {
	Name     string
	DB       dbm.DB
	App      *saoapp.App
	home     string
	Dirty    map[string]bool
	lastHash map[string]uint64
	genesis  []byte
	// process-lifetime bookkeeping
	Restarts int
	// fuel per ABCI call (0 = off)
	FuelBudget int64
	MaxTicks   int64
}

func NewReplica(name string) *Replica {
	initEncoding()
	r := &Replica{Name: name, DB: dbm.NewMemDB(), Dirty: map[string]bool{}, lastHash: map[string]uint64{}}
	home, err := os.MkdirTemp("", "saosim-home-")
	if err != nil {
		panic(err)
	}
	r.home = home
	r.boot()
	return r
}

func (r *Replica) Close() {
	if r.home != "" {
		os.RemoveAll(r.home)
		r.home = ""
	}
}

// boot (re)creates the App object over the replica's DB: a process start.
func (r *Replica) boot() {
	a := saoapp.New(log.NewNopLogger(), r.DB, nil, true, map[int64]bool{}, r.home, 0, encCfg, simapp.EmptyAppOptions{},
		baseapp.SetPruning(pruningtypes.NewCustomPruningOptions(3, 17)))
	r.App = a.(*saoapp.App)
	cms := r.App.CommitMultiStore()
	for _, n := range watchedStores {
		k := r.App.GetKey(n)
		if k == nil {
			panic("no store key " + n)
		}
		cms.AddListeners(k, []storetypes.WriteListener{&dirtyListener{name: n, set: r.Dirty}})
	}
}

// Restart models crash+restart: the App object (all memory) is dropped, package-level
// variables are reset, only the DB survives.
func (r *Replica) Restart() {
	r.App = nil
	verifrt.ResetGlobals()
	r.Restarts++
	r.boot()
	if r.App.LastBlockHeight() == 0 && r.genesis != nil {
		// crashed before the first commit: Tendermint's handshake replays InitChain
		r.InitChain(r.genesis, 1, genesisTime)
	}
}

func (r *Replica) ClearDirty() {
	for k := range r.Dirty {
		delete(r.Dirty, k)
	}
}

// guarded runs one ABCI call, converting an escaping panic into PanicInfo.
func (r *Replica) guarded(call string, f func()) (pi *PanicInfo) {
	verifrt.FuelSite = ""
	if r.FuelBudget > 0 {
		verifrt.SetFuel(r.FuelBudget)
	}
	t0 := verifrt.Ticks
	defer func() {
		verifrt.FuelOn = false
		if d := verifrt.Ticks - t0; d > r.MaxTicks {
			r.MaxTicks = d
		}
		if e := recover(); e != nil {
			pi = &PanicInfo{Call: call, Value: fmt.Sprint(e), Stack: repoFrames(), Full: string(debug.Stack())}
			if fe, ok := e.(verifrt.FuelExhausted); ok {
				pi.Fuel = true
				pi.Site = fe.Site
			}
		} else if verifrt.FuelSite != "" {
			// the budget ran out inside a transaction: baseapp recovered the sentinel panic and
			// turned it into an error response, but the call did not terminate on its own
			pi = &PanicInfo{Call: call, Value: "loop budget exhausted", Stack: verifrt.FuelStack, Fuel: true, Site: verifrt.FuelSite}
		}
		verifrt.FuelSite = ""
	}()
	f()
	return nil
}

// ---- sequencer --------------------------------------------------------------------

type ValInfo struct {
	PubKey []byte // ed25519
	Power  int64
}

func (v ValInfo) Addr() []byte { return ed25519.PubKey(v.PubKey).Address() }

// Block is one entry of the committed block stream.
type Block struct {
	Height   int64
	Time     time.Time
	Proposer []byte
	Votes    []abci.VoteInfo
	Evidence []abci.Evidence
	Txs      [][]byte
	AppHash  []byte // header app hash = previous commit
}

// Sequencer tracks what Tendermint would: height, time, last app hash, validator sets.
type Sequencer struct {
	Height  int64
	Time    time.Time
	AppHash []byte
	// validator set that signs block H is Sets[H]; updates from EndBlock(H) apply at H+2.
	cur     map[string]ValInfo // set for Height+1 (next block)
	next    map[string]ValInfo // set for Height+2
	prevSet map[string]ValInfo // set for Height (the one whose votes go in next LastCommitInfo)
	round   int
}

func cloneSet(m map[string]ValInfo) map[string]ValInfo {
	o := make(map[string]ValInfo, len(m))
	for k, v := range m {
		o[k] = v
	}
	return o
}

func applyUpdates(set map[string]ValInfo, ups []abci.ValidatorUpdate) map[string]ValInfo {
	o := cloneSet(set)
	for _, u := range ups {
		pk := u.PubKey.GetEd25519()
		k := string(pk)
		if u.Power == 0 {
			delete(o, k)
		} else {
			o[k] = ValInfo{PubKey: pk, Power: u.Power}
		}
	}
	return o
}

func sortedVals(m map[string]ValInfo) []ValInfo {
	ks := make([]string, 0, len(m))
	for k := range m {
		ks = append(ks, k)
	}
	sort.Strings(ks)
	out := make([]ValInfo, 0, len(ks))
	for _, k := range ks {
		out = append(out, m[k])
	}
	return out
}

var genesisTime = time.Date(2026, 1, 1, 0, 0, 0, 0, time.UTC)

// InitChain runs InitChain on a replica and returns the sequencer positioned before
// the first block.
func (r *Replica) InitChain(genesis []byte, initialHeight int64, t time.Time) (*Sequencer, *PanicInfo) {
	var res abci.ResponseInitChain
	r.genesis = genesis
	pi := r.guarded("InitChain", func() {
		res = r.App.InitChain(abci.RequestInitChain{
			Time:            t,
			ChainId:         ChainID,
			ConsensusParams: simapp.DefaultConsensusParams,
			AppStateBytes:   genesis,
			InitialHeight:   initialHeight,
		})
	})
	if pi != nil {
		return nil, pi
	}
	set := applyUpdates(map[string]ValInfo{}, res.Validators)
	s := &Sequencer{Height: initialHeight - 1, Time: t, AppHash: res.AppHash, cur: set, next: cloneSet(set), prevSet: map[string]ValInfo{}}
	return s, nil
}

// NextBlock builds the next block header the way Tendermint 0.34 would.
// absent: set of validator keys (string(pubkey)) that did not sign the previous block.
func (s *Sequencer) NextBlock(dt time.Duration, txs [][]byte, absent map[string]bool, ev []abci.Evidence) *Block {
	h := s.Height + 1
	b := &Block{Height: h, Time: s.Time.Add(dt), Txs: txs, AppHash: s.AppHash, Evidence: ev}
	vals := sortedVals(s.cur)
	if len(vals) > 0 {
		b.Proposer = vals[s.round%len(vals)].Addr()
		s.round++
	}
	for _, v := range sortedVals(s.prevSet) {
		b.Votes = append(b.Votes, abci.VoteInfo{
			Validator:       abci.Validator{Address: v.Addr(), Power: v.Power},
			SignedLastBlock: !absent[string(v.PubKey)],
		})
	}
	return b
}

// Advance records the result of executing b (on the observer).
func (s *Sequencer) Advance(b *Block, ups []abci.ValidatorUpdate, appHash []byte) {
	s.Height = b.Height
	s.Time = b.Time
	s.AppHash = appHash
	s.prevSet = s.cur
	s.cur = s.next
	s.next = applyUpdates(s.next, ups)
}

func (b *Block) header() tmproto.Header {
	return tmproto.Header{ChainID: ChainID, Height: b.Height, Time: b.Time, AppHash: b.AppHash, ProposerAddress: b.Proposer}
}

func (r *Replica) BeginBlock(b *Block) (res abci.ResponseBeginBlock, pi *PanicInfo) {
	pi = r.guarded("BeginBlock", func() {
		res = r.App.BeginBlock(abci.RequestBeginBlock{
			Header:              b.header(),
			LastCommitInfo:      abci.LastCommitInfo{Votes: b.Votes},
			ByzantineValidators: b.Evidence,
		})
	})
	return
}

func (r *Replica) DeliverTx(tx []byte) (res abci.ResponseDeliverTx, pi *PanicInfo) {
	pi = r.guarded("DeliverTx", func() { res = r.App.DeliverTx(abci.RequestDeliverTx{Tx: tx}) })
	return
}

func (r *Replica) CheckTx(tx []byte, recheck bool) (res abci.ResponseCheckTx, pi *PanicInfo) {
	t := abci.CheckTxType_New
	if recheck {
		t = abci.CheckTxType_Recheck
	}
	pi = r.guarded("CheckTx", func() { res = r.App.CheckTx(abci.RequestCheckTx{Tx: tx, Type: t}) })
	return
}

// SimulateGas is Simulate that also reports the gas the transaction used.
func (r *Replica) SimulateGas(tx []byte) (ok bool, gas uint64, pi *PanicInfo) {
	pi = r.guarded("Simulate", func() {
		gi, _, err := r.App.Simulate(tx)
		ok = err == nil
		gas = gi.GasUsed
	})
	return
}

func (r *Replica) Simulate(tx []byte) (ok bool, log string, pi *PanicInfo) {
	pi = r.guarded("Simulate", func() {
		_, _, err := r.App.Simulate(tx)
		ok = err == nil
		if err != nil {
			log = err.Error()
		}
	})
	return
}

func (r *Replica) EndBlock(b *Block) (res abci.ResponseEndBlock, pi *PanicInfo) {
	pi = r.guarded("EndBlock", func() { res = r.App.EndBlock(abci.RequestEndBlock{Height: b.Height}) })
	return
}

func (r *Replica) Commit() (hash []byte, pi *PanicInfo) {
	pi = r.guarded("Commit", func() { hash = r.App.Commit().Data })
	return
}

// DeliverCtx reads the deliver state (valid between BeginBlock and Commit).
func (r *Replica) DeliverCtx(b *Block) sdk.Context {
	return r.App.BaseApp.NewContext(false, b.header())
}

// CommittedCtx reads committed state directly from the root store.
func (r *Replica) CommittedCtx(h tmproto.Header) sdk.Context {
	return r.App.BaseApp.NewUncachedContext(false, h)
}

func mustJSON(v interface{}) []byte {
	b, err := json.Marshal(v)
	if err != nil {
		panic(err)
	}
	return b
}
