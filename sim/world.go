package main

// world.go: actors (keys, DIDs), genesis builder, tx signing.

import (
	"encoding/json"
	"fmt"
	"strings"
	"time"

	didkey "github.com/SaoNetwork/sao-did/key"
	saoapp "github.com/SaoNetwork/sao/app"
	nodetypes "github.com/SaoNetwork/sao/x/node/types"
	"github.com/cosmos/cosmos-sdk/client/tx"
	codectypes "github.com/cosmos/cosmos-sdk/codec/types"
	cryptocodec "github.com/cosmos/cosmos-sdk/crypto/codec"
	sdked "github.com/cosmos/cosmos-sdk/crypto/keys/ed25519"
	"github.com/cosmos/cosmos-sdk/crypto/keys/secp256k1"
	sdk "github.com/cosmos/cosmos-sdk/types"
	"github.com/cosmos/cosmos-sdk/types/tx/signing"
	authsigning "github.com/cosmos/cosmos-sdk/x/auth/signing"
	authtypes "github.com/cosmos/cosmos-sdk/x/auth/types"
	banktypes "github.com/cosmos/cosmos-sdk/x/bank/types"
	crisistypes "github.com/cosmos/cosmos-sdk/x/crisis/types"
	genutiltypes "github.com/cosmos/cosmos-sdk/x/genutil/types"
	govv1 "github.com/cosmos/cosmos-sdk/x/gov/types/v1"
	minttypes "github.com/cosmos/cosmos-sdk/x/mint/types"
	slashingtypes "github.com/cosmos/cosmos-sdk/x/slashing/types"
	stakingtypes "github.com/cosmos/cosmos-sdk/x/staking/types"
	"github.com/multiformats/go-multibase"
	tmed "github.com/tendermint/tendermint/crypto/ed25519"
)

type Role string

const (
	RoleOwner     Role = "owner"
	RoleSponsor   Role = "sponsor"
	RoleGateway   Role = "gateway"
	RoleSP        Role = "sp"
	RoleFishman   Role = "fishman"
	RoleValidator Role = "validator"
	RoleDelegator Role = "delegator"
	RoleAdversary Role = "adversary"
)

// Actor is a party with a key pair known to the harness (ground truth for "who signed").
type Actor struct {
	Idx    int
	Role   Role
	Name   string
	Secret []byte
	Priv   *secp256k1.PrivKey
	Addr   sdk.AccAddress
	AddrS  string
	Did    string // did:key of the same key
	Prov   *didkey.Secp256k1Provider
	// validators only
	ConsPriv tmed.PrivKey
	ValAddr  sdk.ValAddress
	Funds    int64
}

var actorCache = map[string]*Actor{}

func makeActor(role Role, i int) *Actor {
	name := fmt.Sprintf("%s%d", role, i)
	if a, ok := actorCache[name]; ok {
		c := *a
		return &c
	}
	initEncoding()
	secret := []byte("verif-actor-" + name)
	priv := secp256k1.GenPrivKeyFromSecret(secret)
	a := &Actor{Role: role, Name: name, Secret: secret, Priv: priv}
	a.Addr = sdk.AccAddress(priv.PubKey().Address())
	a.AddrS = a.Addr.String()
	a.ValAddr = sdk.ValAddress(a.Addr)
	prov, err := didkey.NewSecp256k1Provider(secret)
	if err != nil {
		panic(err)
	}
	a.Prov = prov
	enc, _ := multibase.Encode(multibase.Base58BTC, append([]byte{0xe7, 0x01}, priv.PubKey().Bytes()...))
	a.Did = "did:key:" + enc
	if role == RoleValidator {
		a.ConsPriv = tmed.GenPrivKeyFromSecret([]byte("verif-cons-" + name))
	}
	actorCache[name] = a
	c := *a
	return &c
}

// NodeParams is the swarm-drawn node-module parameter set.
type NodeParams struct {
	BlockReward       int64  `json:"block_reward"`
	Baseline          int64  `json:"baseline"`
	APY               string `json:"apy"`
	HalvingPeriod     int64  `json:"halving"`
	AdjustmentPeriod  int64  `json:"adjustment"`
	MaxPenalty        uint64 `json:"max_penalty"`
	ShareThreshold    string `json:"share_threshold"`
	VstorageThreshold int64  `json:"vstorage_threshold"`
	OfflineTrigger    int64  `json:"offline_trigger"`
	// RewardStart is the cumulative reward counter the chain starts with (a genesis imported
	// from a chain that has been minting for a long time); 0 = fresh chain
	RewardStart int64 `json:"reward_start,omitempty"`
}

// Config is the per-run configuration; it is part of the trace (replay needs nothing else).
type Config struct {
	Seed               uint64     `json:"seed"`
	Profile            string     `json:"profile"`
	NOwners            int        `json:"owners"`
	NSponsors          int        `json:"sponsors"`
	NGateways          int        `json:"gateways"`
	NSPs               int        `json:"sps"`
	NFishmen           int        `json:"fishmen"`
	NValidators        int        `json:"validators"`
	NDelegators        int        `json:"delegators"`
	NAdv               int        `json:"adversaries"`
	Node               NodeParams `json:"node"`
	UnbondingS         int64      `json:"unbonding_s"`
	PoorSPs            []int      `json:"poor_sps,omitempty"`    // SP indices funded just enough for capacity
	PoorOwners         []int      `json:"poor_owners,omitempty"` // owner indices with small balance
	LowRepSPs          []int      `json:"lowrep_sps,omitempty"`  // SPs written into genesis with reputation below floor
	SignedBlocksWindow int64      `json:"signed_blocks_window"`
}

// World is the harness-side knowledge of a run.
type World struct {
	Cfg                                                                    Config
	Actors                                                                 []*Actor
	ByAddr                                                                 map[string]*Actor
	ByDid                                                                  map[string]*Actor
	Owners, Sponsors, Gateways, SPs, Fishmen, Validators, Delegators, Advs []*Actor
	RejectedParams                                                         string // why validation rejected the drawn node parameters ("" = accepted)
}

func NewWorld(cfg Config) *World {
	w := &World{Cfg: cfg, ByAddr: map[string]*Actor{}, ByDid: map[string]*Actor{}}
	add := func(role Role, n int, dst *[]*Actor) {
		for i := 0; i < n; i++ {
			a := makeActor(role, i)
			a.Idx = len(w.Actors)
			w.Actors = append(w.Actors, a)
			w.ByAddr[a.AddrS] = a
			w.ByDid[a.Did] = a
			*dst = append(*dst, a)
		}
	}
	add(RoleOwner, cfg.NOwners, &w.Owners)
	add(RoleSponsor, cfg.NSponsors, &w.Sponsors)
	add(RoleGateway, cfg.NGateways, &w.Gateways)
	add(RoleSP, cfg.NSPs, &w.SPs)
	add(RoleFishman, cfg.NFishmen, &w.Fishmen)
	add(RoleValidator, cfg.NValidators, &w.Validators)
	add(RoleDelegator, cfg.NDelegators, &w.Delegators)
	add(RoleAdversary, cfg.NAdv, &w.Advs)
	return w
}

func inInts(xs []int, x int) bool {
	for _, y := range xs {
		if x == y {
			return true
		}
	}
	return false
}

// Genesis builds a coherent, validated genesis in one denomination.
func (w *World) Genesis() []byte {
	initEncoding()
	cdc := encCfg.Marshaler
	gs := saoapp.ModuleBasics.DefaultGenesis(cdc)

	// accounts and balances
	var accs []authtypes.GenesisAccount
	var bals []banktypes.Balance
	supply := sdk.NewCoins()
	for _, a := range w.Actors {
		accs = append(accs, authtypes.NewBaseAccount(a.Addr, nil, 0, 0))
		amt := int64(2_000_000_000_000)
		switch a.Role {
		case RoleSP:
			for j, s := range w.SPs {
				if s == a && inInts(w.Cfg.PoorSPs, j) {
					amt = 6_000
				}
			}
		case RoleOwner:
			for j, s := range w.Owners {
				if s == a && inInts(w.Cfg.PoorOwners, j) {
					amt = 40_000
				}
			}
		}
		a.Funds = amt
		c := sdk.NewCoins(sdk.NewInt64Coin(Denom, amt))
		bals = append(bals, banktypes.Balance{Address: a.AddrS, Coins: c})
		supply = supply.Add(c...)
	}
	packed, err := authtypes.PackAccounts(accs)
	if err != nil {
		panic(err)
	}
	authGen := authtypes.DefaultGenesisState()
	authGen.Accounts = packed
	gs[authtypes.ModuleName] = cdc.MustMarshalJSON(authGen)

	bankGen := banktypes.DefaultGenesisState()
	bankGen.Balances = bals
	bankGen.Supply = supply
	gs[banktypes.ModuleName] = cdc.MustMarshalJSON(bankGen)

	// staking
	stk := stakingtypes.DefaultGenesisState()
	stk.Params.BondDenom = Denom
	stk.Params.UnbondingTime = time.Duration(w.Cfg.UnbondingS) * time.Second
	stk.Params.MaxValidators = 10
	stk.Params.HistoricalEntries = 2
	gs[stakingtypes.ModuleName] = cdc.MustMarshalJSON(stk)

	mintGen := minttypes.DefaultGenesisState()
	mintGen.Params.MintDenom = Denom
	gs[minttypes.ModuleName] = cdc.MustMarshalJSON(mintGen)

	crisisGen := crisistypes.DefaultGenesisState()
	crisisGen.ConstantFee = sdk.NewInt64Coin(Denom, 1000)
	gs[crisistypes.ModuleName] = cdc.MustMarshalJSON(crisisGen)

	govGen := govv1.DefaultGenesisState()
	govGen.DepositParams.MinDeposit = sdk.NewCoins(sdk.NewInt64Coin(Denom, 10_000_000))
	vp := 20 * time.Second // parameter-change proposals are decided within a few blocks
	govGen.VotingParams.VotingPeriod = &vp
	gs["gov"] = cdc.MustMarshalJSON(govGen)

	sl := slashingtypes.DefaultGenesisState()
	if w.Cfg.SignedBlocksWindow > 0 {
		sl.Params.SignedBlocksWindow = w.Cfg.SignedBlocksWindow
		sl.Params.DowntimeJailDuration = 60 * time.Second
	}
	gs[slashingtypes.ModuleName] = cdc.MustMarshalJSON(sl)

	// gentxs
	var gentxs []json.RawMessage
	for _, v := range w.Validators {
		pk := &sdked.PubKey{Key: v.ConsPriv.PubKey().Bytes()}
		msg, err := stakingtypes.NewMsgCreateValidator(
			v.ValAddr, pk, sdk.NewInt64Coin(Denom, 1_000_000_000),
			stakingtypes.NewDescription(v.Name, "", "", "", ""),
			stakingtypes.NewCommissionRates(sdk.NewDecWithPrec(5, 2), sdk.NewDecWithPrec(20, 2), sdk.NewDecWithPrec(1, 2)),
			sdk.OneInt(),
		)
		if err != nil {
			panic(err)
		}
		bz := signTx(v.Priv, 0, 0, 2_000_000, msg)
		t, err := encCfg.TxConfig.TxDecoder()(bz)
		if err != nil {
			panic(err)
		}
		js, err := encCfg.TxConfig.TxJSONEncoder()(t)
		if err != nil {
			panic(err)
		}
		gentxs = append(gentxs, js)
	}
	gu := genutiltypes.DefaultGenesisState()
	gu.GenTxs = gentxs
	gs[genutiltypes.ModuleName] = cdc.MustMarshalJSON(gu)

	// node module: parameters and empty pool in the bond denom
	np := w.Cfg.Node
	var fish []string
	for _, f := range w.Fishmen {
		fish = append(fish, f.AddrS)
	}
	apy, err := sdk.NewDecFromStr(np.APY)
	if err != nil {
		panic(err)
	}
	thr, err := sdk.NewDecFromStr(np.ShareThreshold)
	if err != nil {
		panic(err)
	}
	ng := nodetypes.DefaultGenesis()
	ng.Params = nodetypes.NewParams(
		sdk.NewInt64Coin(Denom, np.BlockReward), sdk.NewInt64Coin(Denom, np.Baseline), apy,
		np.HalvingPeriod, np.AdjustmentPeriod, strings.Join(fish, ","), 1, np.MaxPenalty, thr,
		np.VstorageThreshold, np.OfflineTrigger)
	ng.Pool = &nodetypes.Pool{
		TotalPledged:       sdk.NewInt64Coin(Denom, 0),
		TotalReward:        sdk.NewInt64Coin(Denom, np.RewardStart),
		AccRewardPerByte:   sdk.NewInt64DecCoin(Denom, 0),
		AccPledgePerByte:   sdk.NewInt64DecCoin(Denom, 0),
		RewardPerBlock:     sdk.NewInt64DecCoin(Denom, 0),
		NextRewardPerBlock: sdk.NewInt64DecCoin(Denom, 0),
	}
	if err := ng.Validate(); err != nil {
		// a drawn parameter set that validation rejects is not a configuration the chain can start
		// with: the run continues with the yield reset to a valid value (C02 quantifies over sets that
		// pass validation)
		w.RejectedParams = err.Error()
		ng.Params.AnnualPercentageYield = "0.5"
		if err := ng.Validate(); err != nil {
			panic(err)
		}
	}
	gs[nodetypes.ModuleName] = cdc.MustMarshalJSON(ng)

	if err := saoapp.ModuleBasics.ValidateGenesis(cdc, encCfg.TxConfig, gs); err != nil {
		panic(fmt.Sprintf("harness genesis does not validate: %v", err))
	}
	out, err := json.Marshal(gs)
	if err != nil {
		panic(err)
	}
	return out
}

var _ = cryptocodec.RegisterInterfaces
var _ codectypes.AnyUnpacker

// signTx builds and signs a single-signer tx (SIGN_MODE_DIRECT, zero fee).
func signTx(priv *secp256k1.PrivKey, accNum, seq uint64, gas uint64, msgs ...sdk.Msg) []byte {
	initEncoding()
	txc := encCfg.TxConfig
	b := txc.NewTxBuilder()
	if err := b.SetMsgs(msgs...); err != nil {
		panic(err)
	}
	b.SetGasLimit(gas)
	mode := signing.SignMode_SIGN_MODE_DIRECT
	sig := signing.SignatureV2{PubKey: priv.PubKey(), Data: &signing.SingleSignatureData{SignMode: mode}, Sequence: seq}
	if err := b.SetSignatures(sig); err != nil {
		panic(err)
	}
	sd := authsigning.SignerData{ChainID: ChainID, AccountNumber: accNum, Sequence: seq}
	sig, err := tx.SignWithPrivKey(mode, sd, b, priv, txc, seq)
	if err != nil {
		panic(err)
	}
	if err := b.SetSignatures(sig); err != nil {
		panic(err)
	}
	bz, err := txc.TxEncoder()(b.GetTx())
	if err != nil {
		panic(err)
	}
	return bz
}
