package main

import (
	"crypto/sha256"
	"encoding/hex"
	"runtime/debug"
	"strings"
)

// repoFrames extracts the repository frames (function names) of the current panic
// stack, top first. Used for stable violation signatures.
func repoFrames() string {
	st := string(debug.Stack())
	var out []string
	for _, ln := range strings.Split(st, "\n") {
		if strings.HasPrefix(ln, "github.com/SaoNetwork/sao/x/") || strings.HasPrefix(ln, "github.com/SaoNetwork/sao/app") {
			f := ln
			if i := strings.LastIndex(f, "("); i > 0 {
				f = f[:i]
			}
			f = strings.TrimPrefix(f, "github.com/SaoNetwork/sao/")
			out = append(out, f)
			if len(out) >= 6 {
				break
			}
		}
	}
	return strings.Join(out, " < ")
}

func sha(b []byte) string {
	h := sha256.Sum256(b)
	return hex.EncodeToString(h[:])
}

func short(s string) string {
	if len(s) > 8 {
		return s[:8]
	}
	return s
}
