#!/bin/bash
# seeded_eval.sh <seeded-id> <prop> [<prop>...]: applies /verif/seeded/<id>/patch.diff to a scratch copy of
# /repo (never to /repo itself), runs the named checks (quick) against that copy via VERIF_REPO, records the
# outcome in /verif/seeded/<id>/result.json and removes the copy.
set -u
ID=$1; shift
D=/verif/seeded/$ID
SCR=$(mktemp -d /var/tmp/seeded-XXXXXX)
trap 'rm -rf $SCR' EXIT
rsync -a --exclude .git /repo/ $SCR/repo/
( cd $SCR/repo && git init -q . 2>/dev/null && git apply $D/patch.diff ) || ( cd $SCR/repo && patch -p1 -s < $D/patch.diff ) || { echo "$ID patch does not apply"; exit 2; }
cd /verif
RES="{}"
for P in "$@"; do
  OUT=$(VERIF_REPO=$SCR/repo VERIF_EVIDENCE_DIR=$SCR/evidence VERIF_REPLAY_DIR=$D VERIF_BUDGET_S=${SEEDED_BUDGET_S:-75} VERIF_SHRINK_S=${SEEDED_SHRINK_S:-40} timeout 1500 ./check $P quick 2>&1)
  RC=$?
  SIG=$(echo "$OUT" | grep -m1 '^violation:' | sed 's/^violation: //')
  ALL=$(echo "$OUT" | grep '^violation:' | sed 's/^violation: //' | cut -d'|' -f1 | sort -u | tr '\n' ' ')
  echo "$ID $P exit=$RC $SIG [all: $ALL]"
  RES=$(echo "$RES" | jq --arg p "$P" --arg rc "$RC" --arg sig "$SIG" --arg all "$ALL" '. + {($p): {exit: ($rc|tonumber), signature: $sig, all_subchecks: $all}}')
done
echo "$RES" > $D/result.json
