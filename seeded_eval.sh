#!/bin/bash
# seeded_eval.sh <seeded-id> <prop> [<prop>...]: applies /verif/seeded/<id>/patch.diff to /repo, runs the
# named checks (quick), records results in /verif/seeded/<id>/result.json, and reverts /repo.
set -u
ID=$1; shift
D=/verif/seeded/$ID
cd /verif
if ! git -C /repo diff --quiet; then echo "/repo has uncommitted changes"; exit 2; fi
git -C /repo apply $D/patch.diff || { echo "patch does not apply"; exit 2; }
RES="{}"
for P in "$@"; do
  OUT=$(VERIF_BUDGET_S=${SEEDED_BUDGET_S:-75} VERIF_SHRINK_S=${SEEDED_SHRINK_S:-40} timeout 1500 ./check $P quick 2>&1)
  RC=$?
  SIG=$(echo "$OUT" | grep -m1 '^violation:' | sed 's/^violation: //')
  RP=$(echo "$OUT" | grep -m1 '^VIOLATION' | sed 's/.*replay=//')
  if [ -n "$RP" ] && [ -f "$RP" ]; then cp "$RP" $D/replay-$P.json; fi
  echo "$ID $P exit=$RC $SIG"
  RES=$(echo "$RES" | jq --arg p "$P" --arg rc "$RC" --arg sig "$SIG" '. + {($p): {exit: ($rc|tonumber), signature: $sig}}')
done
git -C /repo checkout -- .
echo "$RES" > $D/result.json
