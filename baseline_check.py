#!/usr/bin/env python3
# Runs the repository's test suite (guard off: nothing from /verif is compiled in) and
# compares the passing set with /root/.vp/BASELINE.json stable_pass.
import json, subprocess, os, sys
env = dict(os.environ, GOFLAGS='-mod=mod', GOPROXY='off', GOSUMDB='off', GOTOOLCHAIN='local')
p = subprocess.run(['go', 'test', '-json', '-vet=off', '-count=1', '-timeout', '25m', './...'], cwd='/repo', env=env, capture_output=True, text=True)
passed = set()
for line in p.stdout.splitlines():
    try:
        ev = json.loads(line)
    except Exception:
        continue
    if ev.get('Action') == 'pass' and ev.get('Test'):
        passed.add(ev['Package'] + '::' + ev['Test'])
base = json.load(open('/root/.vp/BASELINE.json'))
stable = set(base['stable_pass'])
missing = sorted(stable - passed)
print('stable_pass:', len(stable), 'passing now:', len(stable & passed), 'missing:', missing)
sys.exit(1 if missing else 0)
