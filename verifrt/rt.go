// Package verifrt is the runtime the verification harness (/verif) copies into a
// scratch copy of the repository. Instrumented repository code calls into it; the
// simulator owns every value it returns. It must not import repository packages.
package verifrt

import (
	"fmt"
	"sort"
	"time"
)

// ---- clock seam -------------------------------------------------------------------

// NowFn, when non-nil, replaces the wall clock for instrumented code.
var NowFn func() time.Time

// NowCalls counts instrumented wall-clock reads (reach probe).
var NowCalls int64

func Now() time.Time {
	NowCalls++
	if NowFn != nil {
		return NowFn()
	}
	return time.Now()
}

func Since(t time.Time) time.Duration { return Now().Sub(t) }
func Until(t time.Time) time.Duration { return t.Sub(Now()) }

// ---- map-order seam ---------------------------------------------------------------

// PermFn, when non-nil, returns a permutation of 0..n-1 used to order one map range.
// nil means "sorted order" (the observer replica).
var PermFn func(n int) []int

// MapRanges counts instrumented map iterations (reach probe).
var MapRanges int64

// Keys returns the keys of m in an order chosen by the simulator: the sorted order
// permuted by PermFn. Sorting is by the %v rendering, which is total for the key
// types that occur in the repository (strings, integers).
func Keys[K comparable, V any](m map[K]V) []K {
	MapRanges++
	ks := make([]K, 0, len(m))
	for k := range m {
		ks = append(ks, k)
	}
	sort.Slice(ks, func(i, j int) bool { return less(ks[i], ks[j]) })
	if PermFn != nil && len(ks) > 1 {
		p := PermFn(len(ks))
		out := make([]K, len(ks))
		for i, j := range p {
			out[i] = ks[j]
		}
		return out
	}
	return ks
}

func less(a, b any) bool {
	switch x := a.(type) {
	case string:
		return x < b.(string)
	case uint64:
		return x < b.(uint64)
	case int64:
		return x < b.(int64)
	case int:
		return x < b.(int)
	case uint32:
		return x < b.(uint32)
	case int32:
		return x < b.(int32)
	}
	return fmt.Sprintf("%v", a) < fmt.Sprintf("%v", b)
}

// ---- fuel seam --------------------------------------------------------------------

// FuelExhausted is the panic value raised when an ABCI call exceeds its loop budget.
type FuelExhausted struct{ Site string }

func (f FuelExhausted) Error() string { return "verifrt: fuel exhausted at " + f.Site }

var (
	FuelOn   bool
	Fuel     int64
	FuelSite string
	// FuelStack holds the repository frames at exhaustion (filled by StackFn).
	FuelStack string
	StackFn   func() string
	// Ticks counts all loop iterations observed (reach probe).
	Ticks int64
)

// SetFuel arms the budget for the next ABCI call.
func SetFuel(n int64) { FuelOn = true; Fuel = n }

// Tick is inserted at the top of every loop body of instrumented code.
func Tick(site string) {
	Ticks++
	if !FuelOn {
		return
	}
	Fuel--
	if Fuel < 0 {
		FuelOn = false
		FuelSite = site
		if StackFn != nil {
			FuelStack = StackFn()
		}
		panic(FuelExhausted{Site: site})
	}
}

// ---- globals registry -------------------------------------------------------------

type global struct {
	name  string
	print func() string
	reset func()
	save  func() any
	load  func(any)
}

var globals []global

// RegisterGlobal is called from generated files in instrumented packages.
func RegisterGlobal(name string, print func() string, reset func()) {
	globals = append(globals, global{name: name, print: print, reset: reset})
	sort.Slice(globals, func(i, j int) bool { return globals[i].name < globals[j].name })
}

// RegisterGlobalPtr additionally lets the simulator keep one copy of the variable per simulated
// process (SaveGlobals/LoadGlobals), so that two applications living in one OS process do not
// share package-level state.
func RegisterGlobalPtr[T any](name string, p *T, reset func()) {
	globals = append(globals, global{name: name, print: func() string { return Sprint(*p) }, reset: reset,
		save: func() any { return *p }, load: func(v any) { *p = v.(T) }})
	sort.Slice(globals, func(i, j int) bool { return globals[i].name < globals[j].name })
}

// SaveGlobals returns the current values of all registered package-level variables (by name).
func SaveGlobals() map[string]any {
	out := map[string]any{}
	for _, g := range globals {
		if g.save != nil {
			out[g.name] = g.save()
		}
	}
	return out
}

// LoadGlobals installs values saved by SaveGlobals.
func LoadGlobals(vals map[string]any) {
	for _, g := range globals {
		if v, ok := vals[g.name]; ok && g.load != nil {
			g.load(v)
		}
	}
}

// ResetGlobals models a process restart for package-level variables.
func ResetGlobals() {
	for _, g := range globals {
		if g.reset != nil {
			g.reset()
		}
	}
}

// GlobalsFingerprint renders all registered package-level variables.
func GlobalsFingerprint() string {
	s := ""
	for _, g := range globals {
		s += g.name + "=" + g.print() + ";"
	}
	return s
}

// GlobalNames lists registered names.
func GlobalNames() []string {
	var out []string
	for _, g := range globals {
		out = append(out, g.name)
	}
	return out
}

// Sprint renders a value for the globals fingerprint.
func Sprint(v any) string { return fmt.Sprintf("%v", v) }
