// instrument rewrites a scratch copy of the repository so that the simulator owns the
// nondeterminism the properties depend on (DESIGN.md §3):
//
//	R1 wall clock:   time.Now/Since/Until        -> verifrt.Now/Since/Until
//	R2 map order:    for k, v := range <map>     -> iteration over verifrt.Keys(m)
//	R3 fuel:         verifrt.Tick(site) at the top of every loop body
//	R4 globals:      written package-level vars  -> verifrt.RegisterGlobal(print, reset)
//
// Only non-generated, non-test files under x/ and app/ are rewritten.
package main

import (
	"bytes"
	"encoding/json"
	"flag"
	"fmt"
	"go/ast"
	"go/format"
	"go/token"
	"go/types"
	"os"
	"path/filepath"
	"sort"
	"strings"

	"golang.org/x/tools/go/ast/astutil"
	"golang.org/x/tools/go/packages"
)

const rtPath = "github.com/SaoNetwork/sao/verifrt"

type report struct {
	Packages   int      `json:"packages"`
	Files      int      `json:"files_rewritten"`
	ClockSites []string `json:"clock_sites"`
	MapSites   []string `json:"map_range_sites"`
	MapSkipped []string `json:"map_range_skipped"`
	Loops      int      `json:"loops_ticked"`
	Globals    []string `json:"globals_registered"`
	GoStmts    []string `json:"go_statements"`
	RandSites  []string `json:"rand_or_env_sites"`
}

func skipFile(name string) bool {
	b := filepath.Base(name)
	return strings.HasSuffix(b, ".pb.go") || strings.HasSuffix(b, ".pb.gw.go") || strings.HasSuffix(b, "_test.go") ||
		strings.Contains(name, "/simulation/") || strings.HasSuffix(b, "module_simulation.go") || strings.Contains(name, "/client/") || strings.Contains(name, "/verifrt/") ||
		strings.Contains(name, "/verifsim/") || strings.Contains(name, "/testutil/") || strings.Contains(name, "/docs/")
}

func main() {
	root := flag.String("root", "", "scratch copy of the repository")
	flag.Parse()
	if *root == "" {
		fmt.Fprintln(os.Stderr, "usage: instrument -root <dir>")
		os.Exit(2)
	}
	cfg := &packages.Config{
		Mode: packages.NeedName | packages.NeedFiles | packages.NeedCompiledGoFiles | packages.NeedSyntax | packages.NeedTypes | packages.NeedTypesInfo | packages.NeedImports | packages.NeedDeps,
		Dir:  *root,
		Env:  append(os.Environ(), "GOFLAGS=-mod=mod", "GOPROXY=off", "GOSUMDB=off", "GOTOOLCHAIN=local"),
	}
	pkgs, err := packages.Load(cfg, "./x/...", "./app/...")
	if err != nil {
		fmt.Fprintln(os.Stderr, "load:", err)
		os.Exit(2)
	}
	rep := &report{}
	bad := false
	for _, p := range pkgs {
		for _, e := range p.Errors {
			fmt.Fprintln(os.Stderr, "package error:", e)
			bad = true
		}
	}
	if bad {
		os.Exit(2)
	}
	sort.Slice(pkgs, func(i, j int) bool { return pkgs[i].PkgPath < pkgs[j].PkgPath })
	for _, p := range pkgs {
		collectWritten(p)
	}
	for _, p := range pkgs {
		rep.Packages++
		instrumentPackage(p, *root, rep)
	}
	b, _ := json.MarshalIndent(rep, "", " ")
	fmt.Println(string(b))
}

func rel(root, file string) string {
	r, err := filepath.Rel(root, file)
	if err != nil {
		return file
	}
	return r
}

// written: package-level variables assigned anywhere in the loaded packages (also from another
// package, through a qualified name).
var written = map[types.Object]bool{}

func collectWritten(p *packages.Package) {
	// R4: find written package-level variables
	isPkgVar := func(o types.Object) bool {
		v, ok := o.(*types.Var)
		return ok && !v.IsField() && v.Pkg() != nil && v.Parent() == v.Pkg().Scope()
	}
	for i, f := range p.Syntax {
		if skipFile(p.CompiledGoFiles[i]) {
			continue
		}
		ast.Inspect(f, func(n ast.Node) bool {
			mark := func(e ast.Expr) {
				for {
					switch x := e.(type) {
					case *ast.ParenExpr:
						e = x.X
						continue
					case *ast.SelectorExpr:
						if id, ok := x.X.(*ast.Ident); ok {
							if _, isPkg := p.TypesInfo.Uses[id].(*types.PkgName); isPkg {
								if o := p.TypesInfo.Uses[x.Sel]; o != nil && isPkgVar(o) {
									written[o] = true
								}
								return
							}
						}
						e = x.X
						continue
					case *ast.IndexExpr:
						e = x.X
						continue
					case *ast.StarExpr:
						e = x.X
						continue
					}
					break
				}
				if id, ok := e.(*ast.Ident); ok {
					if o := p.TypesInfo.Uses[id]; o != nil && isPkgVar(o) {
						written[o] = true
					}
				}
			}
			switch s := n.(type) {
			case *ast.AssignStmt:
				if s.Tok != token.DEFINE {
					for _, l := range s.Lhs {
						mark(l)
					}
				}
			case *ast.IncDecStmt:
				mark(s.X)
			case *ast.UnaryExpr:
				if s.Op == token.AND {
					mark(s.X)
				}
			}
			return true
		})
	}
}

func instrumentPackage(p *packages.Package, root string, rep *report) {
	fset := p.Fset
	for i, f := range p.Syntax {
		name := p.CompiledGoFiles[i]
		if skipFile(name) || !strings.HasPrefix(name, root) {
			continue
		}
		r := rel(root, name)
		if !(strings.HasPrefix(r, "x/") || strings.HasPrefix(r, "app/")) {
			continue
		}
		changed := false
		needRT := false
		// probes: go statements, randomness, environment
		ast.Inspect(f, func(n ast.Node) bool {
			switch s := n.(type) {
			case *ast.GoStmt:
				rep.GoStmts = append(rep.GoStmts, fmt.Sprintf("%s:%d", r, fset.Position(s.Pos()).Line))
			case *ast.SelectorExpr:
				if id, ok := s.X.(*ast.Ident); ok {
					if pn, ok := p.TypesInfo.Uses[id].(*types.PkgName); ok {
						switch pn.Imported().Path() {
						case "math/rand", "crypto/rand":
							rep.RandSites = append(rep.RandSites, fmt.Sprintf("%s:%d %s.%s", r, fset.Position(s.Pos()).Line, pn.Imported().Path(), s.Sel.Name))
						case "os":
							if s.Sel.Name == "Getenv" || s.Sel.Name == "Hostname" || s.Sel.Name == "Getpid" {
								rep.RandSites = append(rep.RandSites, fmt.Sprintf("%s:%d os.%s", r, fset.Position(s.Pos()).Line, s.Sel.Name))
							}
						}
					}
				}
			}
			return true
		})
		// R1 clock
		astutil.Apply(f, func(c *astutil.Cursor) bool {
			sel, ok := c.Node().(*ast.SelectorExpr)
			if !ok {
				return true
			}
			id, ok := sel.X.(*ast.Ident)
			if !ok {
				return true
			}
			pn, ok := p.TypesInfo.Uses[id].(*types.PkgName)
			if !ok || pn.Imported().Path() != "time" {
				return true
			}
			switch sel.Sel.Name {
			case "Now", "Since", "Until":
				c.Replace(&ast.SelectorExpr{X: ast.NewIdent("verifrt"), Sel: ast.NewIdent(sel.Sel.Name)})
				rep.ClockSites = append(rep.ClockSites, fmt.Sprintf("%s:%d time.%s", r, fset.Position(sel.Pos()).Line, sel.Sel.Name))
				changed, needRT = true, true
			}
			return true
		}, nil)
		// R2 map ranges and R3 fuel
		ast.Inspect(f, func(n ast.Node) bool {
			switch s := n.(type) {
			case *ast.ForStmt:
				site := fmt.Sprintf("%s:%d", r, fset.Position(s.Pos()).Line)
				s.Body.List = append([]ast.Stmt{tickStmt(site)}, s.Body.List...)
				rep.Loops++
				changed, needRT = true, true
			case *ast.RangeStmt:
				site := fmt.Sprintf("%s:%d", r, fset.Position(s.Pos()).Line)
				tv, ok := p.TypesInfo.Types[s.X]
				isMap := false
				if ok && tv.Type != nil {
					_, isMap = tv.Type.Underlying().(*types.Map)
				}
				if isMap {
					if rewriteMapRange(s) {
						rep.MapSites = append(rep.MapSites, site)
					} else {
						rep.MapSkipped = append(rep.MapSkipped, site)
					}
				}
				s.Body.List = append([]ast.Stmt{tickStmt(site)}, s.Body.List...)
				rep.Loops++
				changed, needRT = true, true
			}
			return true
		})
		// R4 globals declared in this file
		var regs []string
		for _, d := range f.Decls {
			gd, ok := d.(*ast.GenDecl)
			if !ok || gd.Tok != token.VAR {
				continue
			}
			for _, sp := range gd.Specs {
				vs := sp.(*ast.ValueSpec)
				if len(vs.Names) != 1 || len(vs.Values) > 1 {
					continue
				}
				o := p.TypesInfo.Defs[vs.Names[0]]
				if o == nil || !written[o] || vs.Names[0].Name == "_" {
					continue
				}
				var initSrc string
				if len(vs.Values) == 1 {
					var buf bytes.Buffer
					format.Node(&buf, fset, vs.Values[0])
					initSrc = buf.String()
				} else {
					var buf bytes.Buffer
					format.Node(&buf, fset, vs.Type)
					initSrc = "*new(" + buf.String() + ")"
				}
				full := p.PkgPath[strings.Index(p.PkgPath, "/sao/")+5:] + "." + vs.Names[0].Name
				regs = append(regs, fmt.Sprintf("\tverifrt.RegisterGlobalPtr(%q, &%s, func() { %s = %s })\n", full, vs.Names[0].Name, vs.Names[0].Name, initSrc))
				rep.Globals = append(rep.Globals, full)
				changed, needRT = true, true
			}
		}
		if !changed {
			continue
		}
		if needRT {
			astutil.AddImport(fset, f, rtPath)
		}
		if !astutil.UsesImport(f, "time") {
			astutil.DeleteImport(fset, f, "time")
		}
		var buf bytes.Buffer
		if err := format.Node(&buf, fset, f); err != nil {
			fmt.Fprintln(os.Stderr, "format", name, err)
			os.Exit(2)
		}
		if len(regs) > 0 {
			buf.WriteString("\nfunc init() {\n")
			for _, l := range regs {
				buf.WriteString(l)
			}
			buf.WriteString("}\n")
		}
		if err := os.WriteFile(name, buf.Bytes(), 0o644); err != nil {
			fmt.Fprintln(os.Stderr, err)
			os.Exit(2)
		}
		rep.Files++
	}
}

func tickStmt(site string) ast.Stmt {
	return &ast.ExprStmt{X: &ast.CallExpr{
		Fun:  &ast.SelectorExpr{X: ast.NewIdent("verifrt"), Sel: ast.NewIdent("Tick")},
		Args: []ast.Expr{&ast.BasicLit{Kind: token.STRING, Value: fmt.Sprintf("%q", site)}},
	}}
}

func pureExpr(e ast.Expr) bool {
	switch x := e.(type) {
	case *ast.Ident:
		return true
	case *ast.SelectorExpr:
		return pureExpr(x.X)
	case *ast.ParenExpr:
		return pureExpr(x.X)
	}
	return false
}

// rewriteMapRange turns `for k, v := range m` into an iteration over verifrt.Keys(m)
// with a presence check (delete-during-iteration keeps Go semantics).
func rewriteMapRange(s *ast.RangeStmt) bool {
	if s.Tok != token.DEFINE || !pureExpr(s.X) {
		return false
	}
	m := s.X
	keyName := "verifK"
	if id, ok := s.Key.(*ast.Ident); ok && id.Name != "_" {
		keyName = id.Name
	}
	var pre []ast.Stmt
	valName := "_"
	if s.Value != nil {
		if id, ok := s.Value.(*ast.Ident); ok {
			valName = id.Name
		} else {
			return false
		}
	}
	// v, verifOK := m[k]; if !verifOK { continue }
	pre = append(pre, &ast.AssignStmt{
		Lhs: []ast.Expr{ast.NewIdent(valName), ast.NewIdent("verifOK")},
		Tok: token.DEFINE,
		Rhs: []ast.Expr{&ast.IndexExpr{X: m, Index: ast.NewIdent(keyName)}},
	})
	pre = append(pre, &ast.IfStmt{
		Cond: &ast.UnaryExpr{Op: token.NOT, X: ast.NewIdent("verifOK")},
		Body: &ast.BlockStmt{List: []ast.Stmt{&ast.BranchStmt{Tok: token.CONTINUE}}},
	})
	if valName != "_" {
		pre = append(pre, &ast.AssignStmt{Lhs: []ast.Expr{ast.NewIdent("_")}, Tok: token.ASSIGN, Rhs: []ast.Expr{ast.NewIdent(valName)}})
	}
	s.Key = ast.NewIdent("_")
	s.Value = ast.NewIdent(keyName)
	s.X = &ast.CallExpr{Fun: &ast.SelectorExpr{X: ast.NewIdent("verifrt"), Sel: ast.NewIdent("Keys")}, Args: []ast.Expr{m}}
	s.Body.List = append(pre, s.Body.List...)
	if keyName == "verifK" {
		s.Body.List = append([]ast.Stmt{&ast.AssignStmt{Lhs: []ast.Expr{ast.NewIdent("_")}, Tok: token.ASSIGN, Rhs: []ast.Expr{ast.NewIdent("verifK")}}}, s.Body.List...)
	}
	return true
}
